"""C49 Ignore rules match git check-ignore (DESIGN.md §4.C49)."""
import os
import shutil
import subprocess
from concurrent.futures import ThreadPoolExecutor
from vf.core import Suite, coq_hex, coq_list, coq_bool, coq_N
from vf.gen import pick_weighted

ID = "C49"
THEOREMS = ["C49_dowild_total", "C49_dowild_sound_complete", "C49_dowild_codes", "C49_dowild_eq_git",
            "C49_pathname_sound_complete", "C49_pathname_codes", "C49_globmatch_prefix",
            "C49_last_match_wins", "C49_decision_unique", "C49_excluded_parent", "C49_trim_eq_git", "C49_pattern_eq_git_refuted",
            "C49_names_eq_git_partial", "C49_pattern_eq_git_partial", "C49_pattern_eq_git_positive", "C49_pattern_eq_git_modulo_ancestor",
            "C49_reincluded_ancestor_refuted"]
MODEL_FILES = ["Gitignore.v"]
MODELLED = ("plumbing/format/gitignore: pattern.go ParsePattern (with the repaired trimTrailingSpaces), pattern.Match, simpleNameMatch, "
            "globMatch, wildmatch, dowild (all flags, abort codes, bracket loop, matchPOSIXClass), matcher.go matcher.Match, scope.go "
            "NewScope/Descend/Match/RootPatterns/DirPatterns, dir.go readIgnoreFile incl. the repaired BOM skip (Model/Gitignore.v); spec: git 2.39.5 "
            "dir.c (add_patterns_from_buffer, trim_trailing_spaces, parse_path_pattern, match_basename, match_pathname, last_matching_pattern, "
            "prep_exclude) and wildmatch.c (Spec/GitIgnore.v), declarative glob semantics of a component incl. POSIX classes (Spec/Glob.v) and of patterns with "
            "slashes (Spec/PathGlob.v); not modelled: billy filesystem access, "
            "bufio.Scanner's 64 KiB line limit, the multi-byte Unicode spaces of strings.TrimSpace, the deprecated flat ReadPatterns/Matcher walk, "
            "LoadGlobalPatterns/LoadSystemPatterns (config lookup), core.ignorecase; index-out-of-range freedom of dowild is by construction of the "
            "list-based model and tied by the correspondence (a panic of the implementation is always reported), not a separate theorem; model branches "
            "exercised only by the uncompared dead-code parity cases: WM_PATHNAME / WM_CASEFOLD paths of dowild (gitignore always passes flags = 0)")
TRUSTED = [
    "C-impl: harness/cmd/c49 (gitignore.VerifDowild / VerifPatternFields hooks, -tags verif; the Scope walk of utils/merkletrie/filesystem "
    "re-enacted over memfs) vs Model/Gitignore on every case",
    "C-git: Spec/GitIgnore.git_ignored vs `git check-ignore --no-index -v -n -z --stdin` (git 2.39.5) on the cases of every run "
    "(spec_mismatches in the evidence must be 0)",
    "the direct oracle: for every directory and every file of the case's tree, the implementation's verdict through the status walk "
    "(RootPatterns, NewScope, Descend with DirPatterns, Scope.Match) and through the deprecated flat API (NewMatcher(ReadPatterns).Match, "
    "not modelled) vs the same git invocation in a scratch repository that holds the ignore files and the paths (directories exist there "
    "and are queried without a trailing slash: with one, check-ignore takes the empty text after it as the basename)",
    "theorem instances: on every query whose guards (wide_case, path_ok, no_reincluded_ancestor, evaluated in Coq: Proofs/C49Frag.c49_guard) hold, "
    "the implementation must agree with the git binary (guard_diffs in the evidence must be 0; a difference there is reported as a violation, never as a finding); "
    "for every dowild pair whose pattern is in the glob fragment the implementation must agree with the declarative gmatch (Spec/GitIgnore.c49_gmatch)",
]
ASSUMPTIONS = ["git 2.39.5 at /usr/bin/git is the reference (its literal-prefix handling of `foo**/bar` differs from git >= 2.52)",
               "patterns, paths and ignore files are NUL-free; path components are non-empty and contain no slash",
               "core.ignorecase is false (the matcher is case-sensitive; go-git exposes no case folding)"]
RULE = ("case = a small directory tree, ignore files at the root / in sub-directories / info/exclude made of pattern lines derived "
        "from the tree's names (wildcards, brackets, escapes, ** forms, negation, dir-only, leading/trailing/doubled slashes, trailing "
        "blanks, comments, CRLF, BOM; a dedicated bucket of directory-only patterns followed by blanks / escaped blanks / tabs in the root "
        "file, a nested file and info/exclude), queried for every node of the tree; plus (pattern, text) pairs for dowild and (line, domain, path) "
        "triples for ParsePattern/Match; non-trivial = some ignore file has a pattern line / the pattern has a glob-special byte; distinct by content")
LEVEL_NOTE = ("trusted: Coq 8.16.1 kernel; the correspondence harness; S is a transcription of git 2.39.5 validated against the binary on every run. "
              "Theorems: dowild total; dowild (flags 0) sound and complete for a declarative glob semantics on everything wildmatch accepts (literal/?/*/**/escapes/"
              "bracket sets with ranges, negation and POSIX classes), and equal to git's dowild there; git's dowild with WM_PATHNAME sound and complete (abort codes included) "
              "for a declarative semantics of slash patterns (segments, */? not crossing slashes, **/); go-git's globMatch = prefix matching of segments on the shapes of the fragment; "
              "the repaired trailing-space rule equals git's; last-match-wins; excluded parent; go-git = git refuted with witnesses "
              "and proved for ignore files made of name patterns and slash patterns (anchored, inner slashes, **/ groups followed by one segment), "
              "negation included, on every path none of whose ancestor directories is re-included by a negated pattern (that guard is shown necessary; without it go-git is exactly git with patterns that also match below what they match)")

# ---------------------------------------------------------------- generators

COMMON = [b"a", b"b", b"c", b"ab", b"abc", b"foo", b"bar", b"foobar", b"a.c", b"b.c", b"x", b"ba", b"aa"]
ODD = [b"a b", b"a ", b"a ", b"b  ", b"foo ", b"!a", b"#a", b"a*", b"*", b"[a]", b"a?", b"a\\b", b" a", b"A", b"\xc3\xa9", b"a\tb", b"-", b"a-c", b"]", b"a]", b"\\", b"**", b"a!"]


def rname(rng):
    return rng.choice(COMMON) if rng.random() < 0.8 else rng.choice(ODD)


def gen_tree(rng, tier):
    """-> dict path(tuple of bytes) -> isdir ; prefix-closed and consistent"""
    tree = {}
    for _ in range(rng.randrange(1, 5)):
        depth = pick_weighted(rng, [(3, 1), (4, 2), (3, 3), (1, 4)])
        path = tuple(rname(rng) for _ in range(depth))
        ok = True
        for k in range(1, depth):
            if tree.get(path[:k]) is False:
                ok = False
        if not ok or path in tree:
            continue
        for k in range(1, depth):
            tree[path[:k]] = True
        tree[path] = rng.random() < 0.3
    return tree


def escape_name(name):
    return b"".join(b"\\" + bytes([c]) if c in b" *?[\\!#" else bytes([c]) for c in name)


def glob_of(rng, name):
    """a glob segment related to `name`"""
    k = rng.randrange(16)
    n = len(name)
    if any(c in b" *?[\\" for c in name) and rng.random() < 0.6:
        return escape_name(name) if rng.random() < 0.7 else name[:-1] + b"\\" + name[-1:]
    if k <= 2 or n == 0:
        return name
    if k == 3:
        i = rng.randrange(n)
        return name[:i] + b"?" + name[i + 1:]
    if k == 4:
        i = rng.randrange(n + 1)
        return name[:i] + b"*"
    if k == 5:
        i = rng.randrange(n + 1)
        return b"*" + name[i:]
    if k == 6:
        i = rng.randrange(n)
        j = rng.randrange(i, n + 1)
        return name[:i] + b"*" + name[j:]
    if k == 7:
        i = rng.randrange(n)
        c = name[i:i + 1]
        cls = rng.choice([b"[" + c + b"]", b"[" + c + b"z]", b"[!" + c + b"]", b"[^" + c + b"]", b"[a-c]", b"[!a-c]", b"[a-]", b"[]" + c + b"]", b"[\\" + c + b"]",
                          b"[[:alpha:]]", b"[[:digit:]]", b"[[:alpha:][:digit:]]", b"[![:upper:]]", b"[[:foo:]]", b"[a-c", b"[", b"[z-a]", b"[a\\-c]", b"[[:alpha:]", b"[[:a]"])
        return name[:i] + cls + name[i + 1:]
    if k == 8:
        i = rng.randrange(n)
        return name[:i] + b"\\" + name[i:]
    if k == 9:
        return rng.choice([b"**", b"**", name + b"**", b"**" + name, name[:1] + b"**" + name[1:], b"***", b"*"])
    if k == 10:
        return rng.choice([b"*", b"?", b"??", b"*?", b"?*", b"*.c", b"*a*", b"a*b", b"*a*b*", b"[ab]*"])
    if k == 11:
        return name + rng.choice([b"\\", b"\\ ", b"?", b"*", b"x"])
    if k == 12:
        return rng.choice([b"\\" + name, b"\\!" + name, b"\\#" + name, b"!" + name, b"#" + name])
    return name


def gen_pattern(rng, tree, base):
    """one pattern line relevant to the tree below directory `base`"""
    paths = [p for p in tree if p[:len(base)] == base and len(p) > len(base)]
    if paths and rng.random() < 0.9:
        p = rng.choice(paths)[len(base):]
    else:
        p = tuple(rname(rng) for _ in range(rng.randrange(1, 4)))
    # pick a window of the path
    if rng.random() < 0.5:
        i = rng.randrange(len(p))
        j = rng.randrange(i, len(p)) + 1
    else:
        i, j = 0, len(p)
    segs = [glob_of(rng, s) for s in p[i:j]]
    # sprinkle ** segments
    r = rng.random()
    if r < 0.12:
        segs.insert(0, b"**")
    elif r < 0.22:
        segs.append(b"**")
    elif r < 0.32 and len(segs) >= 1:
        segs.insert(rng.randrange(len(segs) + 1), b"**")
    elif r < 0.36:
        k = rng.randrange(len(segs) + 1)
        segs.insert(k, b"**")
        segs.insert(k, b"**")
    elif r < 0.40 and len(segs) >= 2:
        segs.pop(rng.randrange(len(segs)))
        segs.insert(rng.randrange(len(segs) + 1), b"*")
    line = b"/".join(segs)
    r = rng.random()
    if r < 0.2:
        line = b"/" + line
    elif r < 0.23:
        line = b"//" + line
    r = rng.random()
    if r < 0.25:
        line += b"/"
    elif r < 0.27:
        line += b"//"
    if rng.random() < 0.2:
        line = b"!" + line
    r = rng.random()
    if line.endswith(b"/") and r < 0.35:
        # a directory-only pattern followed by blanks (git trims before it looks for the slash)
        line += rng.choice([b" ", b"  ", b"   ", b"\t", b" \t", b"\\ ", b"\\  ", b" \\ "])
    elif r < 0.08:
        line += b" " * rng.randrange(1, 3)
    elif r < 0.10:
        line += b"\\ "
    elif r < 0.12:
        line += b"\\  "
    elif r < 0.13:
        line += b"\\\\ "
    elif r < 0.14:
        line += b"\t"
    return line


SPECIAL_LINES = [b"", b"#comment", b"# a", b"   ", b"\t", b" #a", b"!", b"/", b"//", b"!/", b"\\", b"*", b"**", b"/*", b"!*", b"*/", b"/**", b"**/", b"!**/", b"a/**/", b".", b"..", b"./a", b"a/."]


def gen_file(rng, tree, base, tier):
    lines = []
    for _ in range(pick_weighted(rng, [(4, 1), (4, 2), (2, 3), (1, 4), (1, 6)])):
        if rng.random() < 0.1:
            lines.append(rng.choice(SPECIAL_LINES))
        else:
            lines.append(gen_pattern(rng, tree, base))
    r = rng.random()
    sep = b"\r\n" if r < 0.06 else b"\n"
    content = sep.join(lines)
    if rng.random() < 0.9:
        content += sep
    if rng.random() < 0.04:
        content = b"\xef\xbb\xbf" + content
    return content


DIR_BLANKS = [b" ", b"  ", b"   ", b"\t", b" \t", b"\\ ", b"\\  ", b" \\ ", b""]


def gen_dironly_blanks_case(rng, tier):
    """directory-only patterns followed by trailing blanks / escaped blanks / tabs, in the root file, a nested
    file and info/exclude, against a tree that has those directories (with files below) and same-named files"""
    names = rng.sample([b"build", b"cache", b"out", b"tmp", b"a b", b"x"], 3)
    tree = {}
    top = rng.choice([b"src", b"sub"])
    tree[(top,)] = True
    for i, n in enumerate(names):
        where = [(), (top,)][i % 2] if rng.random() < 0.7 else ()
        isdir = rng.random() < 0.8
        tree[where + (n,)] = isdir
        if isdir:
            tree[where + (n, b"f.o")] = False
            if rng.random() < 0.4:
                tree[where + (n, b"deep")] = True
                tree[where + (n, b"deep", b"g")] = False
    tree[(top, b"keep.c")] = False

    def line(n):
        n = escape_name(n) if b" " in n else n
        pre = rng.choice([b"", b"", b"/", b"**/", b"!"])
        mid = rng.choice([n, n, n[:-1] + b"*", b"?" + n[1:], n + b"/" + b"*" if rng.random() < 0.1 else n])
        return pre + mid + b"/" + rng.choice(DIR_BLANKS)
    files = []
    root_lines = [line(n) for n in rng.sample(names, rng.randrange(1, 3))]
    if rng.random() < 0.3:
        root_lines.insert(rng.randrange(len(root_lines) + 1), rng.choice([b"*.o", b"!*.c", b"# c", b""]))
    if rng.random() < 0.85:
        files.append({"dir": [], "content": (b"\n".join(root_lines) + rng.choice([b"\n", b"", b"\r\n"])).hex()})
    if rng.random() < 0.6:
        files.append({"dir": [top.hex()], "content": (b"\n".join(line(n) for n in rng.sample(names, rng.randrange(1, 3))) + b"\n").hex()})
    c = {"bucket": "dironly-blanks", "files": files}
    if rng.random() < 0.4 or not files:
        c["exclude"] = (b"\n".join(line(n) for n in rng.sample(names, rng.randrange(1, 3))) + b"\n").hex()
    c["queries"] = [{"path": [x.hex() for x in p], "isdir": d} for p, d in sorted(tree.items())]
    return c


def gen_ignore_case(rng, tier):
    if rng.random() < 0.15:
        return gen_dironly_blanks_case(rng, tier)
    tree = gen_tree(rng, tier)
    while not tree:
        tree = gen_tree(rng, tier)
    dirs = [p for p, d in tree.items() if d]
    files = []
    if rng.random() < 0.9:
        files.append({"dir": [], "content": gen_file(rng, tree, (), tier).hex()})
    rng.shuffle(dirs)
    for d in sorted(dirs[:pick_weighted(rng, [(5, 0), (3, 1), (2, 2)])]):
        files.append({"dir": [x.hex() for x in d], "content": gen_file(rng, tree, d, tier).hex()})
    c = {"bucket": "ignore", "files": files}
    if rng.random() < 0.15:
        c["exclude"] = gen_file(rng, tree, (), tier).hex()
    c["queries"] = [{"path": [x.hex() for x in p], "isdir": d} for p, d in sorted(tree.items())]
    return c



# ---------------------------------------------------------------- generator of the proved fragment

FRAG_CLASSES = [b"[a-c]", b"[!a-c]", b"[^b]", b"[[:alpha:]]", b"[[:digit:]]", b"[[:alnum:]_]", b"[![:upper:]]", b"[[:lower:]][[:punct:]]",
                b"[[:xdigit:]]", b"[[:space:]x]", b"[]a]", b"[a\\-c]", b"[[:alpha:]-z]", b"[[:]a]", b"[a-\\c]", b"[[:graph:]]", b"[[:cntrl:][:print:]]", b"[[:blank:]a]"]


def frag_seg(rng, name, brackets=True):
    """a glob of the fragment related to one component (no blank, no slash)"""
    name = bytes(c for c in name if c not in b" \t/") or b"a"
    esc = b"".join(b"\\" + bytes([c]) if c in b"*?[\\!#" else bytes([c]) for c in name)
    k = rng.randrange(12)
    n = len(name)
    if k <= 2:
        return esc
    if k == 3:
        return b"*"
    if k == 4:
        return b"*" + esc[-1:] if esc[-1:] not in (b"\\",) and len(esc) == n else b"*"
    if k == 5:
        i = rng.randrange(n)
        return (name[:i] if not any(c in b"*?[\\!#" for c in name[:i]) else b"") + b"*"
    if k == 6:
        i = rng.randrange(n)
        pre, post = name[:i], name[i + 1:]
        if any(c in b"*?[\\!#" for c in pre + post):
            return esc
        return pre + b"?" + post
    if k == 7 and brackets:
        i = rng.randrange(n)
        pre, post = name[:i], name[i + 1:]
        if any(c in b"*?[\\!#" for c in pre + post):
            return esc
        return pre + rng.choice(FRAG_CLASSES) + post
    if k == 8:
        if any(c in b"*?[\\!#" for c in name):
            return esc
        return name[:1] + b"*" + name[-1:] if n >= 2 else name + b"*"
    if k == 9:
        return rng.choice([b"?", b"??", b"*.c", b"a*", b"*a*", b"?*"])
    if k == 10 and brackets:
        return rng.choice(FRAG_CLASSES) + b"*"
    return esc


def gen_frag_pattern(rng, tree, base):
    paths = [p for p in tree if p[:len(base)] == base and len(p) > len(base)]
    if paths and rng.random() < 0.9:
        p = rng.choice(paths)[len(base):]
    else:
        p = tuple(rname(rng) for _ in range(rng.randrange(1, 4)))
    form = pick_weighted(rng, [(4, "name"), (2, "anchored1"), (3, "inner"), (2, "lead**"), (2, "mid**"), (1, "multi**"), (1, "anch**")])
    if form == "name":
        line = frag_seg(rng, rng.choice(p))
    elif form == "anchored1":
        line = b"/" + frag_seg(rng, p[0])
    elif form == "inner":
        i = rng.randrange(len(p))
        j = min(len(p), i + rng.randrange(2, 4))
        segs = [frag_seg(rng, s) for s in p[i:j]]
        if len(segs) < 2:
            segs.append(frag_seg(rng, rname(rng)))
        line = (b"/" if rng.random() < 0.4 else b"") + b"/".join(segs)
    elif form == "lead**":
        line = b"**/" * rng.randrange(1, 3) + frag_seg(rng, rng.choice(p))
    elif form == "mid**":
        i = rng.randrange(len(p))
        pre = [frag_seg(rng, s) for s in p[:i + 1][-2:]]
        line = b"/".join(pre) + b"/**/" + frag_seg(rng, rng.choice(p[i:] or p))
    elif form == "multi**":
        segs = [frag_seg(rng, s) for s in (p + p + p)[:3]]
        line = segs[0] + b"/**/" + segs[1] + b"/**/" + segs[2]
    else:
        line = b"/**/" + frag_seg(rng, rng.choice(p))
    if rng.random() < 0.25:
        line += b"/"
    if rng.random() < 0.3:
        line = b"!" + line
    return line


def gen_frag_file(rng, tree, base):
    lines = []
    for _ in range(pick_weighted(rng, [(3, 1), (4, 2), (3, 3), (2, 4), (1, 6)])):
        r = rng.random()
        if r < 0.05:
            lines.append(rng.choice([b"#c", b"# a comment", b"#\ttab * !x /", b"# trailing  "]))
        elif r < 0.08:
            lines.append(b"")
        else:
            lines.append(gen_frag_pattern(rng, tree, base))
    return b"\n".join(lines) + b"\n"


def gen_frag_case(rng, tier):
    tree = gen_tree(rng, tier)
    while not tree:
        tree = gen_tree(rng, tier)
    dirs = [p for p, d in tree.items() if d]
    files = [{"dir": [], "content": gen_frag_file(rng, tree, ()).hex()}]
    rng.shuffle(dirs)
    for d in sorted(dirs[:pick_weighted(rng, [(5, 0), (3, 1), (2, 2)])]):
        files.append({"dir": [x.hex() for x in d], "content": gen_frag_file(rng, tree, d).hex()})
    c = {"bucket": "fragment", "files": files}
    if rng.random() < 0.15:
        c["exclude"] = gen_frag_file(rng, tree, ()).hex()
    c["queries"] = [{"path": [x.hex() for x in p], "isdir": d} for p, d in sorted(tree.items())]
    return c


# ---------------------------------------------------------------- git oracle

GITENV = dict(os.environ, GIT_CONFIG_NOSYSTEM="1", GIT_CONFIG_GLOBAL="/dev/null", LC_ALL="C",
              GIT_CEILING_DIRECTORIES="/", GIT_OPTIONAL_LOCKS="0")


def make_template(tmp):
    tpl = os.path.join(tmp, "tpl")
    env = dict(GITENV, HOME=tmp, XDG_CONFIG_HOME=os.path.join(tmp, "xdg"))
    subprocess.run(["/usr/bin/git", "-c", "init.defaultBranch=main", "init", "-q", tpl], check=True, env=env,
                   stdout=subprocess.DEVNULL, stderr=subprocess.DEVNULL)
    shutil.rmtree(os.path.join(tpl, ".git", "hooks"), ignore_errors=True)
    ex = os.path.join(tpl, ".git", "info", "exclude")
    if os.path.exists(ex):
        os.remove(ex)
    return tpl


def git_verdicts(tmp, tpl, case):
    """-> list (one per query) of (ignored: bool, detail) or None when git gave no answer for the path"""
    d = os.path.join(tmp, "g%s" % case["id"]).encode()
    shutil.copytree(os.path.join(tpl, ".git"), os.path.join(d.decode(), ".git"))
    try:
        if case.get("exclude") is not None:
            os.makedirs(os.path.join(d, b".git", b"info"), exist_ok=True)
            with open(os.path.join(d, b".git", b"info", b"exclude"), "wb") as f:
                f.write(bytes.fromhex(case["exclude"]))
        for q in case["queries"]:
            p = os.path.join(d, *[bytes.fromhex(x) for x in q["path"]])
            if q["isdir"]:
                os.makedirs(p, exist_ok=True)
            else:
                os.makedirs(os.path.dirname(p), exist_ok=True)
                if not os.path.lexists(p):
                    open(p, "wb").close()
        for f in case["files"]:
            dd = os.path.join(d, *[bytes.fromhex(x) for x in f["dir"]]) if f["dir"] else d
            os.makedirs(dd, exist_ok=True)
            with open(os.path.join(dd, b".gitignore"), "wb") as fh:
                fh.write(bytes.fromhex(f["content"]))
        # directories are queried WITHOUT a trailing slash: they exist in the scratch tree, so git finds their type
        # itself; with a slash check-ignore takes the text after it (nothing) as the basename and answers differently
        inp = b"".join(b"/".join(bytes.fromhex(x) for x in q["path"]) + b"\0" for q in case["queries"])
        env = dict(GITENV, HOME=tmp, XDG_CONFIG_HOME=os.path.join(tmp, "xdg"))
        p = subprocess.run(["/usr/bin/git", "check-ignore", "--no-index", "-v", "-n", "-z", "--stdin"], input=inp, cwd=d,
                           stdout=subprocess.PIPE, stderr=subprocess.PIPE, env=env, timeout=60)
        fields = p.stdout.split(b"\0")[:-1]
        res = {}
        if len(fields) % 4 == 0:
            for i in range(0, len(fields), 4):
                src, ln, pat, path = fields[i:i + 4]
                res[path] = (bool(src) and not pat.startswith(b"!"), "%s:%s:%s" % (src.decode("latin1"), ln.decode(), pat.decode("latin1")))
        out = []
        for q in case["queries"]:
            out.append(res.get(b"/".join(bytes.fromhex(x) for x in q["path"])))
        return out
    finally:
        shutil.rmtree(d, ignore_errors=True)



# ---------------------------------------------------------------- classification of known divergences

def go_trim(line):
    """ParsePattern's view of a raw line: (negated, body without the dir-only slash); since the
    fix the trailing-space rule is git's"""
    return git_trim(line)


def git_trim(line):
    """trim_trailing_spaces + parse_path_pattern: (negated, first patternlen bytes)"""
    out, i, n = bytearray(), 0, len(line)
    last_space = None
    while i < n:
        c = line[i]
        if c == 0x20:
            if last_space is None:
                last_space = i
        elif c == 0x5c:
            i += 1
            if i >= n:
                last_space = None
                break
            last_space = None
        else:
            last_space = None
        i += 1
    p = line if last_space is None else line[:last_space]
    neg = p.startswith(b"!")
    if neg:
        p = p[1:]
    if p.endswith(b"/"):
        p = p[:-1]
    return neg, p


def raw_lines(content):
    ls = content.split(b"\n")
    if ls and ls[-1] == b"":
        ls.pop()
    return [l[:-1] if l.endswith(b"\r") else l for l in ls]


def body_of(text):
    """decider text -> body (no leading '!', no dir-only slash)"""
    if text.startswith(b"!"):
        text = text[1:]
    if text.endswith(b"/"):
        text = text[:-1]
    return text


def unescaped_segments(body):
    """split on '/', telling whether some '/' was escaped or inside a bracket"""
    esc_slash = br_slash = False
    i, n = 0, len(body)
    while i < n:
        c = body[i:i + 1]
        if c == b"\\":
            if body[i + 1:i + 2] == b"/":
                esc_slash = True
            i += 2
            continue
        if c == b"[":
            j = body.find(b"]", i + 2)
            if j > 0 and b"/" in body[i:j]:
                br_slash = True
        i += 1
    return esc_slash, br_slash


import re
LITPFX = re.compile(rb"^/?[^*?\[\\]*[^*?\[\\/]\*\*+(/|$|\\/)")


def shape_classes(body):
    """divergence shapes of one pattern body, most specific first"""
    out = []
    segs = body.split(b"/")
    if any(s == b"" for s in segs[1:]) and len(segs) > 1:
        out.append("empty-segment")
    esc, br = unescaped_segments(body)
    if esc:
        out.append("escaped-slash")
    if br:
        out.append("slash-in-bracket")
    if any(len(s) >= 3 and set(s) == {0x2a} for s in segs) and len(segs) > 1:
        out.append("triple-star-segment")
    if b"/" in body and LITPFX.match(body):
        out.append("git-literal-prefix-doublestar")
    if len(segs) >= 2 and segs[-1] == b"**" and any(s not in (b"", b"**") for s in segs[:-1]):
        out.append("trailing-doublestar-dir")
    if any(s == b"**" for s in segs[:-1]):
        out.append("doublestar-greedy")
    return out


WS = b" \t\v\f\r"
BOM = b"\xef\xbb\xbf"


def physical_lines(content):
    """[(1-based line number, raw line without LF and without one CR before it)]"""
    ls = content.split(b"\n")
    if ls and ls[-1] == b"":
        ls.pop()
    return [(i + 1, l[:-1] if l.endswith(b"\r") else l) for i, l in enumerate(ls)]


def go_pattern_list(case, path):
    """the lines behind Scope.Patterns() on the way to `path`, in order: [(depth, lineno, raw, content)]
    (classification aid: mirrors readIgnoreFile's filter; exclude has depth -1, the root file appears twice)"""
    out = []

    def add(depth, content):
        for ln, l in physical_lines(content):
            if ln == 1 and l.startswith(BOM):
                l = l[3:]                       # readIgnoreFile skips a byte order mark (so does git)
            if not l.startswith(b"#") and l.strip() != b"":
                out.append((depth, ln, l, content))
    if case.get("exclude") is not None:
        add(-1, bytes.fromhex(case["exclude"]))
    byd = {tuple(bytes.fromhex(x) for x in f["dir"]): bytes.fromhex(f["content"]) for f in case["files"]}
    if () in byd:
        add(0, byd[()])
    for k in range(len(path)):
        d = tuple(path[:k])
        if d in byd:
            add(k, byd[d])
    return out


def git_source(case, src, ln):
    """(depth, raw line, content) of the line `git check-ignore -v` names"""
    if src == ".git/info/exclude":
        depth, content = -1, bytes.fromhex(case.get("exclude") or "")
    else:
        d = tuple(src.encode("latin1").split(b"/")[:-1])
        depth, content = len(d), b""
        for f in case["files"]:
            if tuple(bytes.fromhex(x) for x in f["dir"]) == d:
                content = bytes.fromhex(f["content"])
    for n, l in physical_lines(content):
        if n == ln:
            return depth, (l[3:] if n == 1 and l.startswith(BOM) else l), content
    return depth, None, content


GO_SIDE = ("empty-segment", "trailing-doublestar-dir")
GIT_SIDE = ("empty-segment", "escaped-slash", "slash-in-bracket", "triple-star-segment", "git-literal-prefix-doublestar", "doublestar-greedy")


def classify(case, qi, impl_v, git_v, git_detail, why, model_v):
    """-> known-finding class of a query on which go-git and git disagree, or None.
    The culprit is the higher-priority of the two deciding lines: one side matches it, the other does not."""
    if model_v is not None and model_v != impl_v:
        return None                      # the implementation departs from the pristine model: new behaviour
    path = [bytes.fromhex(x) for x in case["queries"][qi]["path"]]
    g = o = None
    if git_detail and git_detail != "::":
        src, ln, _ = git_detail.split(":", 2)
        depth, raw, content = git_source(case, src, int(ln))
        if raw is None:
            return None
        g = {"key": (depth, int(ln)), "raw": raw, "content": content}
    if why:
        pl = go_pattern_list(case, path)
        if why["idx"] >= len(pl):
            return None
        depth, ln, raw, content = pl[why["idx"]]
        o = {"key": (depth, ln), "raw": raw, "content": content}
    if g and (not o or g["key"] > o["key"]):
        who, c = "git", g
    elif o and (not g or o["key"] > g["key"]):
        who, c = "go", o
    else:
        return None
    raw = c["raw"]
    if raw.strip(WS) == b"" and raw.strip(b" ") != b"":
        return "whitespace-only-line" if who == "git" else None
    neg, body = git_trim(raw)
    shapes = shape_classes(body)
    for cls in shapes:
        if cls in (GO_SIDE if who == "go" else GIT_SIDE):
            return cls
    if who == "go" and neg and why["anc"] and not impl_v and git_v:
        return "negated-ancestor"
    if who == "go" and not neg and why["anc"] and impl_v and not git_v and body_of(raw).count(b"/") >= 1:
        return "dir-pattern-below-reincluded-dir"
    return None


def coq_case_args(c):
    ex = 'None' if c.get("exclude") is None else '(Some "%s")' % c["exclude"]
    fs = coq_list(['(%s, "%s")' % (coq_list(['"%s"' % x for x in f["dir"]]), f["content"]) for f in c["files"]])
    qs = coq_list(['(%s, %s)' % (coq_list(['"%s"' % x for x in q["path"]]), coq_bool(q["isdir"])) for q in c["queries"]])
    return "%s %s %s" % (ex, fs, qs)


def parse_bools(out):
    if out is None or not out.startswith("( ok"):
        return None
    return [t == "true" for t in out.split()[2:-1]]


class Ignore(Suite):
    name = "main"
    go_cmd = "c49"
    coq_imports = "From GoGit Require Import Model.Gitignore Spec.GitIgnore."
    quick_n = 260
    thorough_n = 4000
    coq_chunk = 70

    def gen(self, rng, n, tier):
        cases = []
        for _ in range(n):
            c = gen_frag_case(rng, tier) if rng.random() < 0.4 else gen_ignore_case(rng, tier)
            c["op"] = "ignore"
            cases.append(c)
        return cases

    def guards(self, ctx, cases):
        """{case id: (wide_case, positive_case, [guard of query i])}: the guards of C49_pattern_eq_git_partial, evaluated in Coq"""
        if not hasattr(ctx, "c49_guard"):
            ctx.c49_guard = {}
        todo = [c for c in cases if self.key(c) not in ctx.c49_guard]
        if todo:
            outs = ctx.coq_eval("From GoGit Require Import Proofs.C49Frag.", ["c49_guard " + coq_case_args(c) for c in todo], chunk=self.coq_chunk)
            for c, o in zip(todo, outs):
                toks = o.split()[1:-1] if o and o.startswith("(") else None
                if not toks or len(toks) != 2 + len(c["queries"]) or any(t not in ("true", "false") for t in toks):
                    ctx.c49_guard[self.key(c)] = None
                else:
                    b = [t == "true" for t in toks]
                    ctx.c49_guard[self.key(c)] = (b[0], b[1], b[2:])
        return {c["id"]: ctx.c49_guard[self.key(c)] for c in cases}

    def model_expr(self, c):
        return "c49_ignore " + coq_case_args(c)

    def nontrivial(self, c):
        return any(bytes.fromhex(f["content"]).strip() for f in c["files"]) or bool(c.get("exclude"))

    def git_all(self, ctx, cases):
        if not hasattr(ctx, "c49_git"):
            ctx.c49_git = {}
        tpl = getattr(ctx, "c49_tpl", None)
        if tpl is None:
            tpl = ctx.c49_tpl = make_template(ctx.tmp)
        todo = [c for c in cases if self.key(c) not in ctx.c49_git]
        with ThreadPoolExecutor(max_workers=8) as ex:
            for c, r in zip(todo, ex.map(lambda c: git_verdicts(ctx.tmp, tpl, c), todo)):
                ctx.c49_git[self.key(c)] = r
        return {c["id"]: ctx.c49_git[self.key(c)] for c in cases}

    def oracle(self, ctx, cases, impl, model):
        """the property itself: go-git's verdict (Scope walk as a status walk does it, and the flat Matcher) ==
        git check-ignore's, for every directory and every file of the case's tree"""
        git = self.git_all(ctx, cases)
        guards = self.guards(ctx, cases)
        fails = {}
        for c in cases:
            r = impl.get(c["id"])
            iv = parse_bools(r["out"]) if r else None
            if iv is None or len(iv) != len(c["queries"]):
                fails[c["id"]] = "class=?; no verdicts from the implementation: %s" % (r["out"][:100] if r else None)
                continue
            mv = parse_bools(model.get(c["id"]))
            ex = r.get("extra") or {}
            why = ex.get("why") or [None] * len(iv)
            flat = ex.get("flat")
            bad = []
            differs = {}
            for qi, (q, g) in enumerate(zip(c["queries"], git[c["id"]])):
                if g is not None and iv[qi] != g[0]:
                    differs[tuple(q["path"])] = qi
            for qi, (q, g) in enumerate(zip(c["queries"], git[c["id"]])):
                if g is None or iv[qi] == g[0]:
                    continue
                # a difference below a directory on which the two already differ is that directory's difference
                root = qi
                for k in range(1, len(q["path"])):
                    if tuple(q["path"][:k]) in differs:
                        root = differs[tuple(q["path"][:k])]
                        break
                gr = git[c["id"]][root]
                cls = classify(c, root, iv[root], gr[0], gr[1], why[root], mv[root] if mv and len(mv) == len(iv) else None)
                if mv and len(mv) == len(iv) and mv[qi] != iv[qi]:
                    cls = None
                gd = guards.get(c["id"])
                if gd is not None and gd[0] and gd[2][qi]:
                    cls = None                  # inside the proved fragment: a difference is never a known finding
                bad.append((cls, qi, g))
            # the deprecated flat API, NewMatcher(ReadPatterns(fs)).Match, on the same tree: where it answers like
            # the Scope walk the comparison above covers it; where it does not, only the documented limitation is
            # known (it cannot express an excluded parent: a path below a directory git ignores is re-included)
            if flat is None or len(flat) != len(iv):
                bad.append((None, 0, (None, "flat matcher gave no verdicts: %s" % ex.get("flat_err"))))
            else:
                ign_dirs = {tuple(q["path"]) for q, g in zip(c["queries"], git[c["id"]]) if q["isdir"] and g is not None and g[0]}
                for qi, (q, g) in enumerate(zip(c["queries"], git[c["id"]])):
                    if g is None or flat[qi] == g[0] or flat[qi] == iv[qi]:
                        continue
                    below = any(tuple(q["path"][:k]) in ign_dirs for k in range(1, len(q["path"])))
                    cls = "flat-matcher-excluded-parent" if (not flat[qi] and g[0] and below) else None
                    if cls is None:
                        # ReadPatterns decides which ignore files to read with the same matcher: a directory on which
                        # go-git and git already differ (reported above) explains a difference below it
                        for k in range(1, len(q["path"])):
                            if tuple(q["path"][:k]) in differs:
                                root = differs[tuple(q["path"][:k])]
                                gr = git[c["id"]][root]
                                cls = classify(c, root, iv[root], gr[0], gr[1], why[root], mv[root] if mv and len(mv) == len(iv) else None)
                                break
                    bad.append((cls, qi, (g[0], "flat Matcher says %s; %s" % (flat[qi], g[1]))))
            if bad:
                bad.sort(key=lambda b: (b[0] is not None, b[1]))
                cls, qi, g = bad[0]
                p = b"/".join(bytes.fromhex(x) for x in c["queries"][qi]["path"])
                fails[c["id"]] = "class=%s; path %r (dir=%s): go-git ignored=%s, git check-ignore ignored=%s (%s); %d path(s) of the case differ" % (
                    cls or "?", p, c["queries"][qi]["isdir"], iv[qi], g[0], g[1], len(bad))
        return fails

    def finding_class(self, case, reason, reply):
        if reason.startswith("class=") and not reason.startswith("class=?"):
            return reason[6:reason.index(";")]
        return None

    def extra(self, ctx, cases, impl, model):
        # C-git: S (Spec/GitIgnore.git_ignored) vs the git binary on the same cases
        git = self.git_all(ctx, cases)
        sub = cases[:300] if ctx.tier == "quick" else cases[:2000]
        outs = ctx.coq_eval(self.coq_imports, ["c49_git_ignore " + coq_case_args(c) for c in sub], chunk=self.coq_chunk)
        bad = n = 0
        for c, o in zip(sub, outs):
            sv = parse_bools(o)
            for qi, g in enumerate(git[c["id"]]):
                if g is None:
                    continue
                n += 1
                if sv is None or qi >= len(sv) or sv[qi] != g[0]:
                    bad += 1
                    if bad <= 5:
                        ctx.notes.append("spec_mismatch S vs git on case %s query %d: S=%s git=%s" % (
                            {k: v for k, v in c.items() if k in ("files", "exclude")}, qi, sv[qi] if sv and qi < len(sv) else None, g))
        # theorem instances: guards hold => the implementation agrees with the git binary
        guards = self.guards(ctx, cases)
        gq = gc = gp = gdiff = gneg = 0
        for c in cases:
            gd = guards.get(c["id"])
            r = impl.get(c["id"])
            iv = parse_bools(r["out"]) if r else None
            if gd is None:
                ctx.notes.append("guard evaluation failed on case %s" % c["id"])
                gdiff += 1
                continue
            if not gd[0]:
                continue
            gc += 1
            gp += gd[1]
            neg = any(l.startswith(b"!") for f in c["files"] for l in bytes.fromhex(f["content"]).split(b"\n"))
            for qi, g in enumerate(git[c["id"]]):
                if not gd[2][qi] or g is None:
                    continue
                gq += 1
                gneg += neg
                if iv is None or qi >= len(iv) or iv[qi] != g[0]:
                    gdiff += 1
                    if gdiff <= 5:
                        ctx.notes.append("guard_diff: guards hold but go-git != git on case %s query %d" % (
                            {k: v for k, v in c.items() if k in ("files", "exclude")}, qi))
        return {"spec_vs_git_queries": n, "spec_mismatches": bad, "guard_cases": gc, "guard_positive_cases": gp,
                "guard_queries": gq, "guard_queries_with_negation": gneg, "guard_diffs": gdiff}

    def show(self, c):
        d = dict(c)
        d["readable"] = {"files": [("/".join(bytes.fromhex(x).decode("latin1") for x in f["dir"]), bytes.fromhex(f["content"]).decode("latin1")) for f in c["files"]],
                         "exclude": bytes.fromhex(c["exclude"]).decode("latin1") if c.get("exclude") is not None else None,
                         "queries": [("/".join(bytes.fromhex(x).decode("latin1") for x in q["path"]), q["isdir"]) for q in c["queries"]]}
        return d



# ---------------------------------------------------------------- dowild suite

WALPHA = b"ab*?[]\\!-^c.:"


def gen_glob_fragment(rng):
    """a pattern of the proved fragment"""
    out = b""
    for _ in range(rng.randrange(0, 7)):
        k = rng.randrange(10)
        if k < 4:
            out += rng.choice([b"a", b"b", b"c", b".", b"x", b"!", b"^", b":"])
        elif k == 4:
            out += b"?"
        elif k in (5, 6):
            out += rng.choice([b"*", b"*", b"**", b"***"])
        elif k == 7:
            out += b"\\" + rng.choice([b"a", b"*", b"?", b"[", b"\\", b"]", b"-", b"b"])
        else:
            neg = rng.choice([b"", b"", b"!", b"^"])
            els = b""
            for _ in range(rng.randrange(1, 4)):
                r = rng.random()
                if r < 0.25:
                    els += rng.choice([b"[:alpha:]", b"[:digit:]", b"[:alnum:]", b"[:upper:]", b"[:lower:]", b"[:punct:]", b"[:space:]", b"[:blank:]",
                                       b"[:xdigit:]", b"[:graph:]", b"[:print:]", b"[:cntrl:]", b"[:", b"[:a", b"[:alpha:]-z", b"[:digit:]-"])
                elif r < 0.3:
                    els += rng.choice([b"a-\\c", b"\\a-c", b"\\]", b"\\-", b"a\\-c"])
                elif r < 0.55:
                    els += rng.choice([b"a-c", b"b-b", b"c-a", b"a-z", b"0-9", b"!-/"])
                else:
                    els += rng.choice([b"a", b"b", b"c", b"x", b".", b"*", b"?", b"!", b"^", b":"])
            out += b"[" + neg + els + b"]"
    return out


def gen_text_for(rng, p):
    """a text that has a fair chance to match p"""
    out = b""
    i = 0
    while i < len(p):
        c = p[i:i + 1]
        if c == b"\\" and i + 1 < len(p):
            out += p[i + 1:i + 2]
            i += 2
            continue
        if c == b"*":
            out += bytes(rng.choice(b"abc.x") for _ in range(rng.randrange(0, 3)))
        elif c == b"?":
            out += bytes([rng.choice(b"abcx.")])
        elif c == b"[":
            j = p.find(b"]", i + 2)
            if j < 0:
                j = len(p) - 1
            out += bytes([rng.choice(b"abcx.!1A_ \t" + p[i + 1:j].replace(b"-", b"").replace(b"\\", b"") + b"a")])
            i = j
        else:
            out += c
        i += 1
    if rng.random() < 0.3 and out:
        k = rng.randrange(len(out))
        out = out[:k] + bytes([rng.choice(b"abcx")]) + out[k + (rng.random() < 0.5):]
    return out


WILD_FIXED = [
    (b"*a*a*a*b", b"aaaaaaaaaaaaaaaa"), (b"*a*b*c", b"abababababc"), (b"a*b", b"ab"), (b"a*b", b"a"), (b"*", b""), (b"**", b"abc"),
    (b"", b""), (b"", b"a"), (b"a", b""), (b"?", b""), (b"\\", b"\\"), (b"a\\", b"a"), (b"[", b"["), (b"[a", b"a"), (b"[]", b"]"),
    (b"[]]", b"]"), (b"[]a]", b"a"), (b"[!]", b"!"), (b"[!]a]", b"b"), (b"[a-]", b"-"), (b"[-a]", b"-"), (b"[a-c-e]", b"-"), (b"[a-c-e]", b"d"),
    (b"[\\]]", b"]"), (b"[\\a-c]", b"b"), (b"[a-\\c]", b"b"), (b"[[:alpha:]]", b"a"), (b"[[:alpha:]]", b"1"), (b"[[:digit:][:upper:]]", b"A"),
    (b"[[:foo:]]", b"a"), (b"[[:]", b":"), (b"[[:]", b"["), (b"[[:a]", b"["), (b"[[:alpha]", b"a"), (b"[[:alpha:]", b"a"), (b"[[:space:]]", b" "),
    (b"[[:punct:]]", b"!"), (b"[[:xdigit:]]", b"f"), (b"[[:xdigit:]]", b"g"), (b"[[:cntrl:]]", b"\x01"), (b"[[:graph:]]", b" "), (b"[[:print:]]", b" "),
    (b"[[:lower:]]", b"a"), (b"[[:upper:]]", b"a"), (b"[[:blank:]]", b"\t"), (b"[[:alnum:]]", b"_"), (b"[^a]", b"b"), (b"[^a]", b"a"),
    (b"[a-c]*x", b"bxx"), (b"*[a-c]", b"xxb"), (b"*?", b"a"), (b"*?", b""), (b"?*?", b"ab"), (b"*\\*", b"a*"), (b"*\\?b", b"a?b"),
    (b"[z-a]", b"z"), (b"[z-a]", b"m"), (b"a[b", b"ab"), (b"a]b", b"a]b"), (b"[a-c][!a-c]", b"ad"), (b"\xc3\xa9", b"\xc3\xa9"), (b"[\xc3\xa9]", b"\xa9"),
    (b"[[:alpha:]]", b"\xe9"), (b"*a", b"ba" * 8), (b"*ab", b"aab"), (b"*aab", b"aaab"), (b"a*a*a", b"aaa"), (b"a*a*a", b"aa"),
]


POSIX_CLASSES = [b"alnum", b"alpha", b"blank", b"cntrl", b"digit", b"graph", b"lower", b"print", b"punct", b"space", b"upper", b"xdigit"]
# both sides of every range edge of every class (sane-ctype.h), and the first bytes with the high bit
CLASS_EDGES = [0x01, 0x08, 0x09, 0x0a, 0x0b, 0x0c, 0x0d, 0x0e, 0x1f, 0x20, 0x21, 0x2f, 0x30, 0x39, 0x3a, 0x40, 0x41, 0x46, 0x47, 0x5a, 0x5b,
               0x60, 0x61, 0x66, 0x67, 0x7a, 0x7b, 0x7e, 0x7f, 0x80, 0xff]
CLASS_FIXED = [(b"[[:" + c + b":]]", bytes([b])) for c in POSIX_CLASSES for b in CLASS_EDGES] + \
              [(b"[![:" + c + b":]]", bytes([b])) for c in POSIX_CLASSES for b in (0x20, 0x30, 0x41, 0x61, 0x7e)]


class Wild(Suite):
    name = "dowild"
    go_cmd = "c49"
    coq_imports = "From GoGit Require Import Model.Gitignore Spec.GitIgnore."
    quick_n = 860
    thorough_n = 8000
    coq_chunk = 150

    def gen(self, rng, n, tier):
        cases = [{"bucket": "fixed", "op": "dowild", "p": p.hex(), "t": t.hex(), "flags": 0} for p, t in WILD_FIXED]
        cases += [{"bucket": "class-edge", "op": "dowild", "p": p.hex(), "t": t.hex(), "flags": 0} for p, t in CLASS_FIXED]
        if tier == "thorough":
            # small-scope exhaustion: every pattern of length <= 3 over the special bytes, every text of length <= 2
            from vf.gen import all_strings
            texts = list(all_strings(b"a-]", 2))
            for p in all_strings(b"a*?[]\\-!", 3):
                for t in texts:
                    cases.append({"bucket": "exhaustive", "op": "dowild", "p": p.hex(), "t": t.hex(), "flags": 0})
            n += len(cases)
        while len(cases) < n:
            b = pick_weighted(rng, [(4, "fragment"), (2, "glob_of"), (2, "alphabet"), (1, "stars")])
            if b == "fragment":
                p = gen_glob_fragment(rng)
                t = gen_text_for(rng, p)
            elif b == "glob_of":
                p = glob_of(rng, rname(rng))
                t = gen_text_for(rng, p) if rng.random() < 0.7 else rname(rng)
            elif b == "alphabet":
                p = bytes(rng.choice(WALPHA) for _ in range(rng.randrange(0, 7)))
                t = bytes(rng.choice(b"ab!-^c.:]*") for _ in range(rng.randrange(0, 5)))
            else:
                k = rng.randrange(2, 6)
                p = b"*".join(bytes([rng.choice(b"ab")]) for _ in range(k))
                p = rng.choice([b"", b"*"]) + p + rng.choice([b"", b"*"])
                t = bytes(rng.choice(b"ab") for _ in range(rng.randrange(0, 14)))
            cases.append({"bucket": b, "op": "dowild", "p": p.hex(), "t": t.hex(), "flags": 0})
        return cases

    def model_expr(self, c):
        return 'c49_dowild "%s" "%s" %d%%N' % (c["p"], c["t"], c["flags"])

    def nontrivial(self, c):
        return any(ch in b"*?[\\" for ch in bytes.fromhex(c["p"]))

    @staticmethod
    def git_safe(p, t):
        """(p, t) can be put to git as a one-line .gitignore and a file name without the line reader interfering"""
        if not p or not t or b"/" in p or b"/" in t or t in (b".", b"..", b".git", b".gitignore"):
            return False
        if any(x in p for x in b"\0\n\r") or any(x in t for x in b"\0\n\r"):
            return False
        if p[:1] in (b"#", b"!") or p.startswith(BOM) or p[-1:] in (b" ", b"\t") or p.strip() == b"":
            return False
        if len(t) > 200 or t.lower() == b".gitignore":
            return False
        return True

    def git_batch(self, ctx, cases):
        """{id: ignored?} for the git-safe cases: each pair in its own sub-directory of one scratch repository"""
        if hasattr(ctx, "c49_wild") and ctx.c49_wild[0] is cases:
            return ctx.c49_wild[1]
        tpl = getattr(ctx, "c49_tpl", None)
        if tpl is None:
            tpl = ctx.c49_tpl = make_template(ctx.tmp)
        d = os.path.join(ctx.tmp, "wild%d" % id(cases)).encode()
        shutil.copytree(os.path.join(tpl, ".git"), os.path.join(d.decode(), ".git"))
        ids, inp = [], b""
        for c in cases:
            p, t = bytes.fromhex(c["p"]), bytes.fromhex(c["t"])
            if not self.git_safe(p, t):
                continue
            sub = os.path.join(d, b"d%d" % c["id"])
            os.makedirs(sub)
            with open(os.path.join(sub, b".gitignore"), "wb") as f:
                f.write(p + b"\n")
            open(os.path.join(sub, t), "wb").close()
            ids.append(c["id"])
            inp += b"d%d/" % c["id"] + t + b"\0"
        res = {}
        if ids:
            env = dict(GITENV, HOME=ctx.tmp, XDG_CONFIG_HOME=os.path.join(ctx.tmp, "xdg"))
            pr = subprocess.run(["/usr/bin/git", "check-ignore", "--no-index", "-v", "-n", "-z", "--stdin"], input=inp, cwd=d,
                                stdout=subprocess.PIPE, stderr=subprocess.PIPE, env=env, timeout=300)
            fields = pr.stdout.split(b"\0")[:-1]
            if len(fields) == 4 * len(ids):
                for k, i in enumerate(ids):
                    src, ln, pat, path = fields[4 * k:4 * k + 4]
                    res[i] = bool(src) and not pat.startswith(b"!")
        shutil.rmtree(d, ignore_errors=True)
        ctx.c49_wild = (cases, res)
        return res

    def oracle(self, ctx, cases, impl, model):
        """wildmatch(p, t) on the implementation == git ignoring a file named t under the one-line ignore file p"""
        git = self.git_batch(ctx, cases)
        fails = {}
        for c in cases:
            r = impl.get(c["id"])
            if c["id"] not in git or r is None:
                continue
            im = r["out"] == "( ok match )"
            if im != git[c["id"]]:
                same = model.get(c["id"]) == r["out"]
                fails[c["id"]] = "pattern %r text %r: dowild=%s, git ignored=%s%s" % (
                    bytes.fromhex(c["p"]), bytes.fromhex(c["t"]), r["out"], git[c["id"]], "" if same else " (implementation departs from the model)")
        return fails

    def extra(self, ctx, cases, impl, model):
        git = self.git_batch(ctx, cases)
        sub = [c for c in cases if c["id"] in git][:700 if ctx.tier == "quick" else 3000]
        outs = ctx.coq_eval(self.coq_imports, ['c49_git_wild "%s" "%s"' % (c["p"], c["t"]) for c in sub])
        bad = 0
        for c, o in zip(sub, outs):
            if o != ("true" if git[c["id"]] else "false"):
                bad += 1
                if bad <= 5:
                    ctx.notes.append("spec_mismatch match_basename vs git on %r %r: S=%s git=%s" % (bytes.fromhex(c["p"]), bytes.fromhex(c["t"]), o, git[c["id"]]))
        # theorem instances: pattern in the glob fragment => the implementation decides like the declarative gmatch
        gsub = cases[:900 if ctx.tier == "quick" else 4000]
        gouts = ctx.coq_eval(self.coq_imports, ['c49_gmatch "%s" "%s"' % (c["p"], c["t"]) for c in gsub])
        gin = gbad = gcls = 0
        for c, o in zip(gsub, gouts):
            if o not in ("true", "false"):
                continue
            gin += 1
            gcls += b"[:" in bytes.fromhex(c["p"])
            r = impl.get(c["id"])
            if r is None or (r["out"] == "( ok match )") != (o == "true"):
                gbad += 1
                if gbad <= 5:
                    ctx.notes.append("gmatch_diff: pattern %r text %r: gmatch=%s dowild=%s" % (bytes.fromhex(c["p"]), bytes.fromhex(c["t"]), o, r and r["out"]))
        # dead-code parity (not an alarm): the WM_PATHNAME / WM_CASEFOLD branches of the port against the model
        rng = __import__("random").Random(ctx.seed + 1)
        dc = []
        for i in range(80 if ctx.tier == "quick" else 600):
            p = rng.choice([b"**/", b"*/", b"a/**/b", b"a*/b", b"A[a-c]*", b"**", b"a/**", b"*?/", b"[!a]/b", b"a\\/b"]) + bytes(rng.choice(b"abA*/?") for _ in range(rng.randrange(0, 4)))
            t = bytes(rng.choice(b"abA/") for _ in range(rng.randrange(0, 7)))
            dc.append({"id": i, "op": "dowild", "p": p.hex(), "t": t.hex(), "flags": rng.choice([1, 2, 3, 2])})
        from vf.core import run_impl
        di = run_impl("c49", dc)
        do = ctx.coq_eval(self.coq_imports, ['c49_dowild "%s" "%s" %d%%N' % (c["p"], c["t"], c["flags"]) for c in dc])
        dead = sum(1 for c, o in zip(dc, do) if (di.get(c["id"]) or {}).get("out") != o)
        if dead:
            ctx.notes.append("dead-code parity: %d of %d pathname/casefold dowild cases differ between port and model (unused by gitignore)" % (dead, len(dc)))
        return {"spec_vs_git_pairs": len(sub), "spec_mismatches": bad, "deadcode_parity_cases": len(dc), "deadcode_parity_diffs": dead,
                "fragment_pairs": gin, "fragment_pairs_with_posix_class": gcls, "gmatch_diffs": gbad}


# ---------------------------------------------------------------- ParsePattern / pattern.Match suite (tie only)

class Pat(Suite):
    name = "pattern"
    go_cmd = "c49"
    coq_imports = "From GoGit Require Import Model.Gitignore."
    quick_n = 300
    thorough_n = 6000
    coq_chunk = 150

    def gen(self, rng, n, tier):
        cases = []
        for l in SPECIAL_LINES + [b"a\\ ", b"a\\  ", b"a\\\\ ", b"a  ", b"!a/ ", b"a/b/", b"/a", b"a//b", b"!!a", b" ", b"\\ ", b"a/\\ "]:
            cases.append({"bucket": "parse-fixed", "op": "parse", "line": l.hex(), "domain": []})
        while len(cases) < n:
            tree = gen_tree(rng, tier)
            if not tree:
                continue
            path = rng.choice(sorted(tree))
            k = rng.randrange(0, len(path))
            dom = path[:k] if rng.random() < 0.8 else tuple(rname(rng) for _ in range(rng.randrange(0, 3)))
            line = gen_pattern(rng, tree, dom) if rng.random() < 0.9 else rng.choice(SPECIAL_LINES)
            if rng.random() < 0.3:
                cases.append({"bucket": "parse", "op": "parse", "line": line.hex(), "domain": [x.hex() for x in dom]})
            else:
                cases.append({"bucket": "pmatch", "op": "pmatch", "line": line.hex(), "domain": [x.hex() for x in dom],
                              "path": [x.hex() for x in path], "isdir": bool(tree[path]) if rng.random() < 0.8 else rng.random() < 0.5})
        return cases

    def model_expr(self, c):
        dom = coq_list(['"%s"' % x for x in c["domain"]])
        if c["op"] == "parse":
            return 'c49_parse "%s" %s' % (c["line"], dom)
        return 'c49_pmatch "%s" %s %s %s' % (c["line"], dom, coq_list(['"%s"' % x for x in c["path"]]), coq_bool(c["isdir"]))


SUITES = [Ignore(), Wild(), Pat()]
