"""batch b16 helpers (C42 C43 C47 C51): abstract commit DAGs (topologically numbered parent lists +
committer timestamps), generators, small-scope enumeration, and materialisation with git plumbing
(one `git fast-import` per run; same objects as `git commit-tree` with GIT_*_DATE) for the git oracle."""
import itertools
import os
import subprocess
from concurrent.futures import ThreadPoolExecutor

GIT = "/usr/bin/git"
GENV = {"PATH": "/usr/bin:/bin", "HOME": "/nonexistent", "GIT_CONFIG_NOSYSTEM": "1", "GIT_CONFIG_GLOBAL": "/dev/null",
        "GIT_AUTHOR_NAME": "V", "GIT_AUTHOR_EMAIL": "v@example.com", "GIT_COMMITTER_NAME": "V",
        "GIT_COMMITTER_EMAIL": "v@example.com", "LC_ALL": "C", "TZ": "UTC"}
T0 = 1500000000


# ------------------------------------------------------------------ shapes
def shape(rng, kind, n):
    """-> parent lists, node i's parents all < i"""
    par = [[] for _ in range(n)]
    if kind == "chain":
        for i in range(1, n):
            par[i] = [i - 1]
    elif kind == "diamond":       # stacked diamonds
        i = 1
        while i < n:
            if i + 2 < n:
                par[i], par[i + 1], par[i + 2] = [i - 1], [i - 1], [i, i + 1]
                if rng.random() < 0.5:
                    par[i + 2].reverse()
                i += 3
            else:
                par[i] = [i - 1]
                i += 1
    elif kind == "crisscross":    # two lines merging into each other repeatedly
        for i in range(1, n):
            if i <= 2:
                par[i] = [0]
            else:
                par[i] = [i - 2, i - 1] if i % 2 else [i - 1, i - 2]
                if i >= 4 and rng.random() < 0.3:
                    par[i] = [i - 2]
    elif kind == "octopus":
        for i in range(1, n):
            k = min(i, rng.choice([1, 1, 2, 3, 4, 5]))
            par[i] = rng.sample(range(i), k)
    elif kind == "forest":        # several roots, sparse merges
        for i in range(1, n):
            r = rng.random()
            if r < 0.35:
                par[i] = []
            elif r < 0.8:
                par[i] = [rng.randrange(i)]
            else:
                par[i] = rng.sample(range(i), min(i, 2))
    else:                         # random
        for i in range(1, n):
            k = min(i, rng.choice([0, 1, 1, 1, 2, 2, 3]))
            par[i] = rng.sample(range(i), k)
    return par


def stamp(rng, kind, par):
    """committer timestamps; 'mono' = every parent strictly older than its child"""
    n = len(par)
    if kind == "mono":
        t = [0] * n
        for i in range(n):
            t[i] = max([t[p] for p in par[i] if p < n] + [T0]) + rng.randrange(1, 50)
        return t
    if kind == "equal":
        return [T0] * n
    if kind == "ties":
        return [T0 + rng.randrange(3) * 10 for _ in range(n)]
    if kind == "reversed":        # children older than their parents
        return [T0 + 1000 * (n - i) + rng.randrange(5) for i in range(n)]
    if kind == "perm":
        order = list(range(n))
        rng.shuffle(order)
        return [T0 + 100 * order[i] for i in range(n)]
    return [T0 + rng.randrange(0, 40) for _ in range(n)]   # skewed, with ties


SHAPES = [(2, "chain"), (2, "diamond"), (3, "crisscross"), (2, "octopus"), (2, "forest"), (4, "random")]
STAMPS = [(3, "mono"), (1, "equal"), (2, "ties"), (2, "reversed"), (3, "perm"), (3, "skew")]


def all_dags(n):
    """every parent-set assignment on n topologically numbered nodes (parents ascending)"""
    choices = []
    for i in range(n):
        subs = []
        for k in range(i + 1):
            subs += [list(c) for c in itertools.combinations(range(i), k)]
        choices.append(subs)
    for combo in itertools.product(*choices):
        yield [list(x) for x in combo]


def weak_orders(n):
    """all assignments of n items to ranks (every total preorder exactly once)"""
    seen = set()
    for ranks in itertools.product(range(n), repeat=n):
        used = sorted(set(ranks))
        canon = tuple(used.index(r) for r in ranks)
        if canon not in seen:
            seen.add(canon)
            yield list(canon)


# ------------------------------------------------------------------ abstract spec in python (for oracles)
def anc_sets(par):
    n = len(par)
    anc = []
    for i in range(n):
        s = {i}
        for p in par[i]:
            if p < n:
                s |= anc[p]
            else:
                s.add(p)
        anc.append(s)
    return anc


def maximal(anc, xs):
    xs = set(xs)
    return sorted(x for x in xs if not any(y != x and x in anc[y] for y in xs))


# ------------------------------------------------------------------ git side
class GitDags:
    """all DAGs of a run in one bare repository; commits are named by (key, node)"""

    def __init__(self, root):
        self.dir = os.path.join(root, "dags.git")
        subprocess.run([GIT, "init", "-q", "--bare", self.dir], check=True, env=GENV)
        self.stream = []
        self.marks = {}
        self.next = 1
        self.sha = {}

    def add(self, key, par, times, msgs=None, trees=None):
        n = len(par)
        for i in range(n):
            m = self.next
            self.next += 1
            self.marks[(key, i)] = m
            msg = (msgs[i] if msgs else ("node %d\n" % i).encode())
            out = [b"reset refs/heads/x\n", b"commit refs/heads/x\n", b"mark :%d\n" % m,
                   b"author V <v@example.com> %d +0000\n" % times[i],
                   b"committer V <v@example.com> %d +0000\n" % times[i],
                   b"data %d\n" % len(msg), msg, b"\n"]
            ps = [p for p in par[i] if p < n]
            if ps:
                out.append(b"from :%d\n" % self.marks[(key, ps[0])])
                for p in ps[1:]:
                    out.append(b"merge :%d\n" % self.marks[(key, p)])
            if trees and trees[i]:
                for path, data in trees[i]:
                    out.append(b"M 100644 inline %s\ndata %d\n%s\n" % (path, len(data), data))
            out.append(b"\n")
            self.stream.append(b"".join(out))

    def flush(self):
        if not self.stream:
            return
        mf = os.path.join(self.dir, "marks.txt")
        p = subprocess.run([GIT, "--git-dir", self.dir, "fast-import", "--quiet", "--force", "--date-format=raw",
                            "--export-marks=" + mf], input=b"".join(self.stream),
                           stdout=subprocess.PIPE, stderr=subprocess.PIPE, env=GENV)
        if p.returncode != 0:
            raise RuntimeError("git fast-import failed: " + p.stderr.decode("utf-8", "replace")[-800:])
        m2s = {}
        for line in open(mf):
            a, b = line.split()
            m2s[int(a[1:])] = b
        for k, m in self.marks.items():
            self.sha[k] = m2s[m]
        self.stream = []

    def git(self, *args, input=None):
        p = subprocess.run([GIT, "--git-dir", self.dir] + list(args), input=input, stdout=subprocess.PIPE,
                           stderr=subprocess.PIPE, env=GENV)
        return p.returncode, p.stdout.decode("utf-8", "replace"), p.stderr.decode("utf-8", "replace")

    def nodes(self, key, text, n):
        """sha lines -> sorted node numbers of DAG `key`"""
        back = {self.sha[(key, i)]: i for i in range(n)}
        return [back.get(l.strip(), -1) for l in text.split() if l.strip()]


def pmap(fn, items, workers=8):
    with ThreadPoolExecutor(max_workers=workers) as ex:
        return list(ex.map(fn, items))


def coq_nat_list(xs):
    return "[" + "; ".join("%d" % x for x in xs) + "]"


def coq_dag(par, times):
    return "%s %s" % ("[" + "; ".join(coq_nat_list(ps) for ps in par) + "]",
                      "[" + "; ".join("(%d)%%Z" % t for t in times) + "]")


EMPTY_TREE = "4b825dc642cb6eb9a060e54bf8d69288fbee4904"


def gen_numbers(par, times):
    """git's generation numbers: topological level (v1) and corrected commit date (v2)"""
    n = len(par)
    g1, g2 = [0] * n, [0] * n
    for i in range(n):
        g1[i] = 1 + max([g1[p] for p in par[i]] + [0])
        g2[i] = max([times[i]] + [g2[p] + 1 for p in par[i]])
    return g1, g2


def one_repo(root, par, times, refs=True):
    """a fresh bare repository holding exactly this DAG (one branch per node when refs)"""
    r = GitDags(root)
    r.add(0, par, times)
    if refs:
        for i in range(len(par)):
            r.stream.append(b"reset refs/heads/t%d\nfrom :%d\n\n" % (i, r.marks[(0, i)]))
    r.flush()
    return r
