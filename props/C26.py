"""C26 Worktree operations never touch paths outside the worktree or in .git (DESIGN.md §4.C26)."""
from vf.core import Suite, coq_bool
from vf.gen import pick_weighted

ID = "C26"
THEOREMS = ["C26_lexical_confined", "C26_tree_paths", "C26_write_confined", "C26_nested_dotgit_refuted", "C26_nested_dotgit_partial"]
MODEL_FILES = ["WorktreePaths.v"]
MODELLED = ("worktree_fs.go: validPath, validWritePath/validReadPath = validPath + validNoLeadingSymlink (the latter over an abstract file tree "
            "with arbitrary symlink behaviour); internal/pathutil: ValidTreePath, IsDotGitName, IsNTFSDotGit, WindowsValidPath, "
            "isWindowsReservedName (Model/WorktreePaths.v, ASCII input); not modelled: HFS+ folding of non-ASCII input, validSymlinkName, "
            "clearBlockingSymlinks / checkoutFile, DotGit.Module, the go-git operations themselves — those are exercised over a recording "
            "filesystem with sentinels (suites wfs, checkout)")
TRUSTED = [
    "C-impl (suite lexical): git.VerifValidPath / VerifValidTreePath (verif_export_c26.go, -tags verif) vs Model/WorktreePaths on every ASCII case",
    "direct oracle (lexical): an accepted path, split on '/' as a POSIX kernel does, has no '.'/'..' component, a first component that is not "
    ".git/git~1 (any case) and — for ValidTreePath — no .git-like component at any depth (HFS-ignorable code points and NTFS tails stripped)",
    "direct oracle (wfs, checkout): a naive recording billy filesystem (harness/cmd/c26 rawfs: plain os.* calls, follows symlinks, no containment) "
    "sits below go-git's worktreeFilesystem; every call is logged with the location the kernel really resolves it to; no call may resolve outside "
    "the worktree or inside a .git directory, and the sentinel files outside the worktree and in .git must be byte-identical afterwards",
]
ASSUMPTIONS = ["POSIX path semantics (components separated by '/', backslash is an ordinary byte)",
               "the filesystem below the worktree resolves a relative path against the worktree root (billy contract)"]
RULE = ("lexical: paths assembled from a hostile component alphabet (.git in all cases and NTFS/HFS disguises, '..', '.', reserved device names, "
        "control bytes) with '/', '\\\\' and doubled separators; wfs: planted symlinks (to outside, to a file outside, to .git) and wrapper calls "
        "through them; checkout: raw trees with hostile entry names, symlink/dir type swaps across commits, pre-planted symlinks, then "
        "checkout/reset/add/remove/move/clean/status; non-trivial = path has a special component or a planted symlink is on the path")


def hx(b):
    return (b if isinstance(b, bytes) else b.encode()).hex()


COMPONENTS = [b".git", b".GIT", b".Git", b".gIt", b"git~1", b"GIT~1", b"Git~1", b"..", b".", b"...", b"a", b"b", b"dir", b".git ", b".git.",
              b".git. .", b".git:x", b".git::$INDEX_ALLOCATION", b"git~1 ", b"git~1.", b"git~2", b".gitx", b"x.git", b".gi", b"con", b"CON",
              b"con.txt", b"CON ", b"aux", b"nul.", b"prn:", b"com1", b"COM9.x", b"com0", b"lpt9:", b"conin$", b"CONOUT$.a", b"cons", b".gitmodules",
              b".gitmodules ", b"GITMOD~1", b" ", b"~", b"g", b".g\xe2\x80\x8cit", b"\xe2\x80\x8c.git", b".git\xef\xbb\xbf", b".g\xc4\xb0t", b"\xc3\xa9"]
SEPS = [b"/", b"/", b"/", b"\\", b"//", b"/\\", b"\\\\", b"\\/"]


def rpath(rng):
    n = pick_weighted(rng, [(3, 1), (4, 2), (3, 3), (1, 4)])
    parts = []
    for i in range(n):
        if rng.random() < 0.45:
            parts.append(rng.choice([b"a", b"b", b"dir", b"sub", b"file.txt"]))
        else:
            parts.append(rng.choice(COMPONENTS))
    p = b""
    if rng.random() < 0.12:
        p += rng.choice(SEPS)
    for i, c in enumerate(parts):
        if i:
            p += rng.choice(SEPS)
        p += c
    r = rng.random()
    if r < 0.12:
        p += rng.choice([b"/", b"\\", b"/\\", b"\\\\", b"//"])
    elif r < 0.16:
        p += bytes([rng.choice([0, 1, 9, 10, 31, 127])])
    elif r < 0.18:
        p = b""
    return p


HFS_IGNORED = [chr(c) for c in (0x200c, 0x200d, 0x200e, 0x200f, 0x202a, 0x202b, 0x202c, 0x202d, 0x202e,
                                 0x206a, 0x206b, 0x206c, 0x206d, 0x206e, 0x206f, 0xfeff)]


def dotgit_like(comp, deep):
    """is this POSIX component a spelling of .git?  deep=True adds the HFS / NTFS disguises"""
    lc = comp.lower()
    if lc in (b".git", b"git~1"):
        return True
    if not deep:
        return False
    try:
        s = comp.decode("utf-8")
    except UnicodeDecodeError:
        s = None
    if s is not None:
        t = s
        for ch in HFS_IGNORED:
            t = t.replace(ch, "")
        if t.lower() == ".git":
            return True
    if b"\\" not in comp:
        base = lc.split(b":", 1)[0].rstrip(b" .")
        if base in (b".git", b"git~1"):
            return True
    return False


class Lexical(Suite):
    name = "lexical"
    go_cmd = "c26"
    coq_imports = "From GoGit Require Import Model.WorktreePaths."
    quick_n = 700
    thorough_n = 6000

    def gen(self, rng, n, tier):
        cases = []
        for _ in range(n):
            p = rpath(rng)
            fn = "tree" if rng.random() < 0.4 else "valid"
            cases.append({"suite": "lexical", "bucket": fn, "fn": fn, "path": hx(p), "ntfs": rng.random() < 0.6, "hfs": rng.random() < 0.4})
        return cases

    def model_expr(self, c):
        p = bytes.fromhex(c["path"])
        if any(b >= 128 for b in p):
            return None
        if c["fn"] == "tree":
            return 'c26_valid_tree_path "%s"' % c["path"]
        return 'c26_valid_path %s %s "%s"' % (coq_bool(c["ntfs"]), coq_bool(c["hfs"]), c["path"])

    def nontrivial(self, c):
        p = bytes.fromhex(c["path"])
        return any(x in p.lower() for x in (b"git", b"..", b"\\", b"con", b"aux", b"nul", b"com", b"lpt", b"prn"))

    def oracle(self, ctx, cases, impl, model):
        fails = {}
        for c in cases:
            r = impl.get(c["id"])
            if r is None:
                fails[c["id"]] = "other|no reply"
                continue
            if r["out"] != "true":
                continue
            p = bytes.fromhex(c["path"])
            comps = [x for x in p.split(b"/") if x]
            if not comps:
                fails[c["id"]] = "other|accepted a path without components"
            elif any(x in (b".", b"..") for x in comps):
                fails[c["id"]] = "other|accepted a path with a '.' or '..' component: %r" % p
            elif dotgit_like(comps[0], False):
                fails[c["id"]] = "other|accepted a path whose first component is .git: %r" % p
            elif c["fn"] == "tree" and any(dotgit_like(x, True) for x in comps):
                fails[c["id"]] = "other|ValidTreePath accepted a .git-like component: %r" % p
            elif c["fn"] == "valid" and any(dotgit_like(x, False) for x in comps[:-1]):
                tail = comps[[dotgit_like(x, False) for x in comps].index(True) + 1:]
                cls = "nested-dotgit-backslash-tail" if all(set(t) == {0x5c} for t in tail) else "other"
                fails[c["id"]] = "%s|validPath accepted a path that names something inside a nested .git directory: %r" % (cls, p)
        return fails

    def finding_class(self, case, reason, reply):
        cls = reason.split("|", 1)[0]
        return None if cls == "other" else cls


# ---------------------------------------------------------------- filesystem suites

OUT_TARGETS = ["@outside", "@outside/dir", "@outside/sentinel", "../outside", "../outside/dir", "../outside/sentinel", ".git", ".git/hooks",
               "../../..", "/"]


def footprint_failures(c, r, strict_reads):
    """-> reason or None.  strict_reads: also object to a final-component follow that lands outside (go-git's own operations)"""
    ex = (r or {}).get("extra") or {}
    if not ex:
        return "other|no footprint in the reply"
    # the wrapper by itself does not promise no-follow on the FINAL component (checkoutFile removes a blocking
    # symlink first): direct wrapper calls (suite wfs) that open an existing final symlink are not counted
    final_follow = any(x["cls"] == "inside" and x["clsf"] != "inside" and x["mut"] for x in ex.get("records") or [])
    if not ex.get("outside_ok") and (strict_reads or not final_follow):
        return "other|files outside the worktree were modified"
    if not ex.get("gitdir_ok") and (strict_reads or not final_follow):
        return "other|sentinel / hooks / config inside .git were modified"
    for rec in ex.get("records") or []:
        lead = rec["cls"] != "inside"
        fin = rec["clsf"] != "inside"
        if lead and rec["mut"]:
            cls = "other"
            if rec["cls"] == "dotgit" and "\\" in rec["path"]:
                cls = "nested-dotgit-backslash-tail"
            return "%s|mutating call %s(%r) resolved to %s (%s)" % (cls, rec["op"], rec["path"], rec["real"], rec["cls"])
        if lead and not rec["mut"]:
            cls = "lstat-probe-through-leading-symlink" if rec["op"] == "lstat" else "other"
            if rec["cls"] == "dotgit" and "\\" in rec["path"] and ".git/" in rec["path"].lower():
                cls = "nested-dotgit-backslash-tail"
            return "%s|read call %s(%r) resolved to %s (%s)" % (cls, rec["op"], rec["path"], rec["real"], rec["cls"])
        if fin and rec["op"] == "chroot":
            return "other|chroot(%r) scoped a filesystem to %s (%s)" % (rec["path"], rec["real"], rec["clsf"])
        if fin and strict_reads:
            return "other|%s(%r) followed a symlink in the final component to %s (%s)" % (rec["op"], rec["path"], rec["real"], rec["clsf"])
    return None


class WFS(Suite):
    """calls on worktreeFilesystem itself, through planted symlinks"""
    name = "wfs"
    go_cmd = "c26"
    quick_n = 120
    thorough_n = 800

    def gen(self, rng, n, tier):
        cases = []
        for _ in range(n):
            plant = []
            names = []
            for _ in range(rng.randrange(1, 4)):
                nm = rng.choice(["s", "t", "d/s", "d/e/s", "lnk"])
                plant.append([hx(nm), "l", hx(rng.choice(OUT_TARGETS))])
                names.append(nm)
            plant.append([hx("d/f"), "f", hx("x")])
            plant.append([hx("sub/.git/config"), "f", hx("nested")])
            plant.append([hx(".git/config"), "f", hx("real")])
            calls = []
            for _ in range(rng.randrange(2, 8)):
                base = rng.choice(names + ["d", "d/e", "sub", "new", "sub/.git", ".git", "a/.git"])
                tail = rng.choice(["", "/x", "/dir/inner", "/x/y/z", "/sentinel", "/hooks/pre-commit", "/config", "/\\", "\\x", "/..", "/../x"])
                m = pick_weighted(rng, [(3, "create"), (2, "openfile"), (2, "remove"), (2, "mkdirall"), (2, "symlink"), (2, "rename"),
                                        (1, "open"), (1, "readdir"), (2, "lstat"), (1, "stat"), (1, "readlink"), (1, "chroot")])
                call = {"m": m, "p": hx(base + tail)}
                if m in ("symlink", "rename"):
                    call["q"] = hx(rng.choice(["d/f", "../outside/sentinel", "new2", rng.choice(names) + "/moved"]))
                    if m == "rename" and rng.random() < 0.5:
                        call["p"], call["q"] = hx("d/f"), call["p"]
                calls.append(call)
            cases.append({"suite": "wfs", "bucket": "wfs", "ntfs": rng.random() < 0.7, "hfs": rng.random() < 0.3, "plant": plant, "calls": calls})
        return cases

    def oracle(self, ctx, cases, impl, model):
        fails = {}
        for c in cases:
            why = footprint_failures(c, impl.get(c["id"]), strict_reads=False)
            if why:
                fails[c["id"]] = why
        return fails

    def finding_class(self, case, reason, reply):
        cls = reason.split("|", 1)[0]
        return None if cls == "other" else cls


def f(n, content="x"):
    return [hx(n), "f", hx(content)]


def x(n, content="#!/bin/sh\n"):
    return [hx(n), "x", hx(content)]


def d(n, sub):
    return [hx(n), "d", sub]


def ln(n, t):
    return [hx(n), "l", hx(t)]


HOSTILE_NAMES = [b".git", b".GIT", b".Git", b"git~1", b"GIT~1", b".git ", b".git.", b".git::$INDEX_ALLOCATION", b"..", b".", b".g\xe2\x80\x8cit",
                 b"\xe2\x80\x8d.git", b"a/../../esc", b"../esc", b"..\\esc", b".git/hooks/pre-commit", b".git\\config", b"sub\\.git\\config",
                 b"CON", b"aux.c", b".gitmodules", b".gitmodules ", b"GITMOD~1", b"/abs"]
LINK_TARGETS = [b"../outside", b"../outside/sentinel", b"../outside/dir", b".git", b".git/hooks", b".git/config", b"..", b"/tmp", b"ok"]


class Checkout(Suite):
    """go-git operations on hostile trees / planted symlinks over the naive recording filesystem"""
    name = "checkout"
    go_cmd = "c26"
    quick_n = 110
    thorough_n = 800

    def hostile_tree(self, rng):
        ents = [f("ok"), d("dir", [f("inner")])]
        for _ in range(rng.randrange(1, 4)):
            name = rng.choice(HOSTILE_NAMES)
            kind = pick_weighted(rng, [(3, "f"), (3, "d"), (2, "l"), (1, "x"), (1, "s")])
            depth = rng.randrange(0, 3)
            if kind == "d":
                e = [hx(name), "d", [f("config", "evil"), d("hooks", [x("pre-commit")])]]
            elif kind == "l":
                e = [hx(name), "l", hx(rng.choice(LINK_TARGETS))]
            elif kind == "s":
                e = [hx(name), "s", ""]
            else:
                e = [hx(name), kind, hx("evil")]
            for k in range(depth):
                e = d(rng.choice(["sub", "dir2", "a"]), [e])
            ents.append(e)
        # unique names at top level
        seen, out = set(), []
        for e in ents:
            if e[0] not in seen:
                seen.add(e[0])
                out.append(e)
        return out

    def gen(self, rng, n, tier):
        cases = []
        for _ in range(n):
            b = pick_weighted(rng, [(4, "hostile-tree"), (4, "planted"), (4, "typeswap"), (2, "userpaths"), (1, "hostile-index")])
            c = {"suite": "checkout", "bucket": b, "ntfs": rng.random() < 0.7, "hfs": rng.random() < 0.4, "plant": [], "ops": []}
            if b == "hostile-tree":
                c["commits"] = [{"tree": self.hostile_tree(rng)}]
                c["ops"] = [rng.choice([{"op": "checkout", "commit": 0, "force": True}, {"op": "reset", "commit": 0, "mode": "hard"},
                                        {"op": "checkout", "commit": 0, "force": False}, {"op": "reset", "commit": 0, "mode": "merge"}]),
                            {"op": "status"}]
                if rng.random() < 0.3:
                    c["ops"].append({"op": "submodules"})
            elif b == "planted":
                # honest tree, symlinks already sitting where it wants to write
                c["commits"] = [{"tree": [d("s", [f("x", "fromtree"), d("deep", [f("y")])]), f("t", "tt"), d("dir", [f("inner"), ln("l2", "inner")]),
                                          ln("lnk", "dir/inner"), x("run")]}]
                for nm in rng.sample(["s", "t", "dir", "dir/inner", "lnk", "s/deep", "run"], rng.randrange(1, 4)):
                    c["plant"].append([hx(nm), "l", hx(rng.choice(OUT_TARGETS))])
                c["ops"] = [rng.choice([{"op": "checkout", "commit": 0, "force": True}, {"op": "reset", "commit": 0, "mode": "hard"}]),
                            {"op": "status"}, {"op": "clean"}]
            elif b == "typeswap":
                tgt = rng.choice(LINK_TARGETS)
                t0 = [ln("s", tgt.decode()), f("k"), d("dir", [ln("in", "../" + tgt.decode())])]
                t1 = [d("s", [f("sentinel", "clobber"), f("config", "clobber"), d("hooks", [x("pre-commit")])]), f("k"),
                      d("dir", [d("in", [f("sentinel", "clobber")])])]
                c["commits"] = [{"tree": t0}, {"tree": t1}]
                c["start0"] = True
                seq = [{"op": "checkout", "commit": 1, "force": rng.random() < 0.5}, {"op": "reset", "commit": 0, "mode": "hard"},
                       {"op": "reset", "commit": 1, "mode": rng.choice(["hard", "merge", "keep"])}, {"op": "status"}, {"op": "clean"}]
                c["ops"] = seq[:rng.randrange(1, len(seq) + 1)]
            elif b == "userpaths":
                c["commits"] = [{"tree": [f("k"), d("dir", [f("inner")])]}]
                c["start0"] = True
                c["plant"] = [[hx("s"), "l", hx(rng.choice(OUT_TARGETS))], [hx("sub/.git/config"), "f", hx("nested")], [hx("new"), "f", hx("n")]]
                ups = ["s/sentinel", "s/dir/inner", "../outside/sentinel", ".git/config", ".git/sentinel", "sub/.git/config", "sub/.git/\\",
                       "new", "dir/inner", "s", "dir/../../outside/sentinel", "/etc/hostname", "a\\..\\..\\x"]
                for _ in range(rng.randrange(1, 4)):
                    o = rng.choice(["add", "remove", "move"])
                    op = {"op": o, "p": hx(rng.choice(ups))}
                    if o == "move":
                        op["q"] = hx(rng.choice(ups))
                    c["ops"].append(op)
            else:
                c["commits"] = [{"tree": [f("k")]}]
                c["start0"] = True
                names = [hx(rng.choice(HOSTILE_NAMES + [b"../outside/sentinel", b".git/sentinel", b".git/hooks/post-checkout"])) for _ in range(rng.randrange(1, 3))]
                c["ops"] = [{"op": "setindex", "names": names}, rng.choice([{"op": "reset", "commit": 0, "mode": "hard"}, {"op": "status"},
                                                                           {"op": "checkout", "commit": 0, "force": True}]), {"op": "clean"}]
            cases.append(c)
        return cases

    def oracle(self, ctx, cases, impl, model):
        fails = {}
        for c in cases:
            why = footprint_failures(c, impl.get(c["id"]), strict_reads=True)
            if why:
                fails[c["id"]] = why
        return fails

    def finding_class(self, case, reason, reply):
        cls = reason.split("|", 1)[0]
        return None if cls == "other" else cls


SUITES = [Lexical(), WFS(), Checkout()]
