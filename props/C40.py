"""C40 Repository loaders never serve a repository outside their root (DESIGN.md §4.C40)."""
import atexit
import os
import shutil
import tempfile
from vf.core import Suite, coq_hex, coq_list, coq_bool
from vf.gen import pick_weighted

ID = "C40"
THEOREMS = ["C40_confined", "C40_footprint", "C40_terminates", "C40_serves_repository",
            "C40_bound_chroot_confined", "C40_helper_chroot_confined"]
MODEL_FILES = ["GoPath.v", "Loader.v"]
MODELLED = ("plumbing/transport/loader.go: FilesystemLoader.load (Chroot, .git directory / gitfile, absolute vs relative gitdir, "
            "'.git' suffix retry, tried/strict flags), readGitfile (Model/Loader.v); go-billy v6 osfs.BoundOS.Chroot "
            "(toRelative, relativeInsideBase, cleanUnderRoot, chrootPath, os.Root walk without links) and helper/chroot "
            "ChrootHelper.Chroot (isCrossBoundaries, underlyingPath), Go path/filepath Clean/Join (Model/GoPath.v); "
            "not modelled: symbolic links below the root (resolved by os.Root / memfs: exercised with sentinel repositories "
            "outside the root, oracle only), unicode spaces in gitfiles, storage construction, backend/http routing")
TRUSTED = [
    "C-impl: FilesystemLoader.Load through a recording billy wrapper on a scratch tree (osfs.New(T/R) and memfs+Chroot) vs Model/Loader.load on every link-free case",
    "C-impl (paths): filepath.Clean/Join, BoundOS.Chroot root, ChrootHelper.Chroot root vs Model/GoPath on generated paths",
    "direct oracle: served root (lexical and EvalSymlinks) under the loader root; config/HEAD read through the served storer are not the sentinel repository's; every path the loader handed to the filesystem is under the root",
]
ASSUMPTIONS = ["the loader root R is a clean absolute path other than '/' (C40_good_root)",
               "symbolic links are outside the theorem: os.Root (BoundOS) confinement is the operating system's and Go's os.Root contract, exercised only"]
RULE = ("case = (fs kind, strict, tree below a scratch dir with loader root R and sentinel repositories outside R, request path); "
        "buckets: existing repos with decorated paths, dot-dot/absolute/escaping requests, gitfiles (relative, absolute inside, "
        "absolute outside, escaping, malformed), symlinks (oracle only); non-trivial = request or a gitfile contains '..', "
        "is absolute, or the tree has a gitfile/symlink; distinct by content")

SENT_CFG = b"[verif]\n\tsentinel = OUTSIDE-c40\n"
SENT_HEAD = b"ref: refs/heads/outside\n"
GOOD_CFG = b"[core]\n\tbare = true\n"
GOOD_HEAD = b"ref: refs/heads/main\n"


def sentinels():
    es = []
    for d in ("out/repo.git", "out/wt/.git", "out.git", "R.git"):
        es += [(d, "d", b""), (d + "/config", "f", SENT_CFG), (d + "/HEAD", "f", SENT_HEAD), (d + "/objects", "d", b""), (d + "/refs", "d", b"")]
    return es


def repo(d):
    return [(d, "d", b""), (d + "/config", "f", GOOD_CFG), (d + "/HEAD", "f", GOOD_HEAD)]


def normalise(entries):
    """explicit parent directories, first definition of a path wins, parents before children"""
    seen, out = {}, []
    for p, k, c in entries:
        parts = p.split("/")
        ok = True
        for i in range(1, len(parts)):
            par = "/".join(parts[:i])
            if par not in seen:
                seen[par] = "d"
                out.append((par, "d", b""))
            elif seen[par] != "d":
                ok = False      # below a file or a link: skip
                break
        if ok and p not in seen:
            seen[p] = k
            out.append((p, k, c))
    return out


NAMES = ["a", "b", "a.git", "b.git", "wt", "gf", "sub", "x y", "...", "..a", "c.git.git", "d"]
GITDIRS = [b"../a.git", b"a.git", b"../../out/repo.git", b"../../../out/wt/.git", b"sub/../../a.git", b"@T@/R/a.git", b"@T@/R/sub/../b.git",
           b"@T@/out/repo.git", b"/etc", b"/", b"..", b".", b"", b"@T@/R", b"@T@/R/../out/repo.git", b"../wt/.git", b"./real", b"real/", b"@T@/R.git", b"../../R.git",
           b"../../out", b"@T@/out"]


def gitfile(rng):
    t = rng.choice(GITDIRS)
    form = pick_weighted(rng, [(6, "ok"), (1, "nonl"), (1, "crlf"), (1, "spaces"), (1, "noprefix"), (1, "nospace"), (1, "second"), (1, "empty")])
    if form == "ok":
        return b"gitdir: " + t + b"\n"
    if form == "nonl":
        return b"gitdir: " + t
    if form == "crlf":
        return b"gitdir: " + t + b"\r\n"
    if form == "spaces":
        return b"gitdir:  \t" + t + b" \t \nmore\n"
    if form == "noprefix":
        return t + b"\n"
    if form == "nospace":
        return b"gitdir:" + t + b"\n"
    if form == "second":
        return b"\ngitdir: " + t + b"\n"
    return b""


def decorate(rng, p):
    """request-path decorations of a path below R"""
    d = pick_weighted(rng, [(4, "plain"), (2, "slash"), (1, "dot"), (2, "dotdot"), (1, "updown"), (1, "trail"), (2, "abs"), (1, "strip"), (1, "dbl"), (1, "deep")])
    if d == "plain":
        return p
    if d == "slash":
        return "/" + p
    if d == "dot":
        return "./" + p
    if d == "dotdot":
        return "../" * rng.randrange(1, 4) + p
    if d == "updown":
        return "zz/../" + p
    if d == "trail":
        return p + "/"
    if d == "abs":
        return "@T@/R/" + p
    if d == "strip":
        return p[:-4] if p.endswith(".git") else p
    if d == "dbl":
        return p.replace("/", "//")
    return p + "/../" + p.split("/")[-1]


ESCAPES = ["../out/repo.git", "../out/repo", "../out/wt", "../out", "..", "../..", "../R.git", "../R", "@T@/out/repo.git", "@T@/out/wt", "@T@/out",
           "@T@/R.git", "@T@/R/../out/repo.git", "@T@/R/../out", "@T@", "/", "", ".", "a/../../out/repo.git", "../../../../../../" + "etc",
           "/../out/repo.git", "//..//out/wt", "@T@/R/..", "sub/../../out", "../R/../out/wt", "..//out.git", "../out.git/", "....//out"]


class Load(Suite):
    name = "main"
    go_cmd = "c40"
    coq_imports = "From GoGit Require Import Model.GoPath Model.Loader."
    quick_n = 260
    thorough_n = 2500
    coq_chunk = 45
    _T = None

    @property
    def T(self):
        if Load._T is None:
            Load._T = tempfile.mkdtemp(prefix="vc40-")
            atexit.register(shutil.rmtree, Load._T, True)
        return Load._T

    @property
    def impl_env(self):
        return {"C40_T": self.T}

    def gen(self, rng, n, tier):
        cases = []
        for _ in range(n):
            bucket = pick_weighted(rng, [(4, "repos"), (4, "escape"), (5, "gitfile"), (2, "odd"), (3, "symlink")])
            es = [("R", "d", b"")]
            present = []
            for _ in range(rng.randrange(1, 5)):
                nm = rng.choice(NAMES)
                d = "R/" + (rng.choice(["", "sub/", "sub/deep/"]) if rng.random() < 0.4 else "") + nm
                kind = pick_weighted(rng, [(3, "bare"), (2, "wt"), (3 if bucket == "gitfile" else 1, "gf"), (1, "file"), (1, "dir"), (1, "cfgdir"), (1, "both")])
                if kind == "bare":
                    es += repo(d)
                elif kind == "wt":
                    es += repo(d + "/.git")
                elif kind == "gf":
                    es += [(d, "d", b""), (d + "/.git", "f", gitfile(rng))]
                    if rng.random() < 0.3:
                        es += repo(d + "/real")
                elif kind == "file":
                    es += [(d, "f", b"plain\n")]
                elif kind == "dir":
                    es += [(d, "d", b"")]
                elif kind == "cfgdir":
                    es += [(d, "d", b""), (d + "/config", "d", b"")]
                else:
                    es += repo(d) + repo(d + "/.git")
                present.append(d[2:])
            if bucket == "symlink":
                for _ in range(rng.randrange(1, 3)):
                    ln = "R/" + rng.choice(["lnk", "sub/lnk", "a/.git", "l.git", "gf/.git", "a.git/config"])
                    tgt = rng.choice([b"../out/repo.git", b"@T@/out/repo.git", b"@T@/out/wt", b"../out/wt/.git", b"a.git", b"../R/a.git", b"@T@/R/a.git",
                                      b"../../out", b"@T@/out/repo.git/config", b"..", b"/", b"../out.git"])
                    es.append((ln, "l", tgt))
                    present.append(ln[2:])
                    present.append(ln[2:].rsplit("/", 1)[0])
            k = rng.random()
            if k < 0.05:
                es = [e for e in es if e[0] != "R"]       # loader root itself missing unless implied
            elif k < 0.08:
                es = [("R", "f", b"not a directory\n")]    # loader root is a regular file
            es = normalise(es + sentinels())
            if bucket == "escape" or (bucket != "repos" and rng.random() < 0.25):
                req = rng.choice(ESCAPES)
            elif bucket == "odd":
                req = rng.choice(["a/b/c", "nonexistent", "a.git/config", "a.git/HEAD/x", "wt/.git", "x y", "...", "..a", ".git", "config", "sub//deep/./a"])
                req = decorate(rng, req)
            else:
                req = decorate(rng, rng.choice(present))
            via = "http" if rng.random() < 0.12 else "loader"
            if via == "http" and rng.random() < 0.3:
                req = rng.choice(["file://@T@/out/repo.git", "file:///@T@/out/wt", "ssh://h/@T@/out/repo.git", "h:../out/repo.git", "a.git/../../out/repo.git"])
            cases.append({"bucket": bucket if via == "loader" else "http", "via": via, "kind": rng.choice(["bound", "bound", "chroot"]), "strict": rng.random() < 0.25,
                          "tree": [{"p": p.encode().hex(), "k": k, "c": c.hex()} for p, k, c in es], "req": req.encode().hex()})
        return cases

    def has_link(self, c):
        return any(e["k"] == "l" for e in c["tree"])

    def sub(self, hx):
        return bytes.fromhex(hx).replace(b"@T@", self.T.encode())

    def model_expr(self, c):
        if self.has_link(c) or c.get("via") == "http":
            return None
        tree = coq_list(['(%s, %s)' % (coq_hex(bytes.fromhex(e["p"])), "None" if e["k"] == "d" else "Some %s" % coq_hex(self.sub(e["c"])))
                         for e in c["tree"]])
        return "c40_run %s %s %s %s %s" % (coq_bool(c["kind"] == "bound"), coq_bool(c["strict"]), coq_hex(self.T.encode()), tree, coq_hex(self.sub(c["req"])))

    def nontrivial(self, c):
        req = bytes.fromhex(c["req"])
        return b".." in req or req.startswith(b"/") or req.startswith(b"@T@") or any(
            e["k"] == "l" or (e["k"] == "f" and bytes.fromhex(e["p"]).endswith(b"/.git")) for e in c["tree"])

    def show(self, c):
        d = dict(c)
        d["tree"] = ["%s %s %r" % (bytes.fromhex(e["p"]).decode(), e["k"], bytes.fromhex(e["c"])[:40]) for e in c["tree"] if not bytes.fromhex(e["p"]).startswith((b"out", b"R.git"))]
        d["req_text"] = repr(bytes.fromhex(c["req"]))
        return d

    def oracle(self, ctx, cases, impl, model):
        fails = {}
        R = os.path.join(self.T, "R")

        def under(p, root):
            p = os.path.normpath(p)
            return p == root or p.startswith(root + "/")
        for c in cases:
            r = impl.get(c["id"])
            if r is None:
                continue        # no reply is a harness fault: reported by the runner as a broken correspondence, not as a property failure
            if r.get("panic") or not r["out"].startswith("( ok"):
                continue
            ex = r.get("extra") or {}
            if c.get("via") == "http":
                bad = [p for p in (ex.get("touched") or []) if not under(p, R)]
                if "outside" in (ex.get("http_body") or ""):
                    fails[c["id"]] = "backend/http served HEAD of the sentinel repository outside the root for request path %r" % bytes.fromhex(c["req"])
                elif bad:
                    fails[c["id"]] = "the loader (via backend/http) probed %r outside its root" % bad[0]
                continue
            root = ex.get("root", "")
            if not under(root, R):
                fails[c["id"]] = "served root %r is not under the loader root" % root
            elif "realroot" in ex and "realR" in ex and not under(ex["realroot"], ex["realR"]):
                fails[c["id"]] = "served root %r resolves to %r outside the loader root" % (root, ex["realroot"])
            elif "OUTSIDE-c40" in ex.get("config", "") or "outside" in ex.get("head", ""):
                fails[c["id"]] = "the served repository is the sentinel repository outside the root (root %r)" % root
            else:
                bad = [p for p in (ex.get("touched") or []) if not under(p, R)]
                if bad:
                    fails[c["id"]] = "the loader probed %r outside its root" % bad[0]
        return fails


class Paths(Suite):
    name = "paths"
    go_cmd = "c40"
    coq_imports = "From GoGit Require Import Model.GoPath Model.Loader."
    quick_n = 200
    thorough_n = 3000
    coq_chunk = 100
    impl_env = {"C40_T": "/nonexistent/vc40"}

    PIECES = ["a", "b", ".", "..", "", "...", "..a", "a.", ".git", "x y", "R", "tmp"]

    def rpath(self, rng, absolute=None):
        n = rng.randrange(0, 7)
        s = "/".join(rng.choice(self.PIECES) for _ in range(n))
        if absolute is True or (absolute is None and rng.random() < 0.4):
            s = "/" + s
        return s

    def gen(self, rng, n, tier):
        cases = []
        bases = ["/tmp/zz/R", "/R", "/a/b", "/tmp/x y/..a"]
        for _ in range(n):
            fn = pick_weighted(rng, [(2, "clean"), (2, "join"), (3, "bound"), (3, "chroot")])
            if fn == "clean":
                a, b = self.rpath(rng), ""
            elif fn == "join":
                a, b = self.rpath(rng), self.rpath(rng)
            else:
                a = rng.choice(bases)
                b = self.rpath(rng)
                if rng.random() < 0.3:
                    b = rng.choice([a, a + "/", a + "/..", a + "x", a[:-1], "/tmp", "/"]) + ("/" + self.rpath(rng, False) if rng.random() < 0.7 else "")
            cases.append({"bucket": fn, "suite": "paths", "fn": fn, "a": a.encode().hex(), "b": b.encode().hex()})
        return cases

    def model_expr(self, c):
        return 'c40_paths "%s" %s %s' % (c["fn"], coq_hex(bytes.fromhex(c["a"])), coq_hex(bytes.fromhex(c["b"])))

    def show(self, c):
        return {"fn": c["fn"], "a": bytes.fromhex(c["a"]).decode(), "b": bytes.fromhex(c["b"]).decode()}

    def oracle(self, ctx, cases, impl, model):
        """confinement of the two Chroot implementations, checked on the implementation alone"""
        fails = {}
        for c in cases:
            r = impl.get(c["id"])
            if c["fn"] in ("bound", "chroot") and r and r["out"].startswith("( ok x"):
                root = bytes.fromhex(r["out"].split()[2][1:]).decode()
                base = bytes.fromhex(c["a"]).decode()
                if not (root == base or root.startswith(base + "/")) or "/../" in root + "/":
                    fails[c["id"]] = "Chroot(%r) of a filesystem rooted at %r is rooted at %r" % (bytes.fromhex(c["b"]).decode(), base, root)
        return fails


SUITES = [Load(), Paths()]
