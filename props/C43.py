"""C43 History traversal visits each reachable commit exactly once (DESIGN.md §4.C43)."""
from vf.core import Suite
from vf.gen import pick_weighted
from props import b16dag as D

ID = "C43"
THEOREMS = ["C43_walk_perm", "C43_pre_perm", "C43_post_perm", "C43_bfs_perm", "C43_ctime_perm", "C43_first_parent_perm",
            "C43_limit", "C43_bfs_level_order", "C43_ctime_newest_first", "C43_post_topological_refuted", "C43_all_refuted", "C43_all_partial"]
MODEL_FILES = ["CommitWalk.v", "LogWalk.v"]
MODELLED = ("plumbing/object/commit_walker.go (commitPreIterator, commitPostIterator, commitPostIteratorFirstParent, "
            "NewCommitAllIter/addReference), commit_walker_bfs.go, commit_walker_ctime.go (incl. the gods binary heap), "
            "commit_walker_limit.go, repository.go Log/log/logAll/commitIterFunc, commitgraph/commitnode_walker_ctime.go "
            "(Model/CommitWalk.v, Model/LogWalk.v); exercised only (oracle, no model): the commit-graph topological node "
            "walkers (topo/date/author order) and the path filters")
LEVEL_NOTE = ("trusted: Coq 8.16.1 kernel; the correspondence harness; theorems are about Model/CommitWalk.v + Model/LogWalk.v "
              "(pre-order, post-order, first-parent, BFS, committer-time incl. the gods binary heap, limit iterator, Log(All)), "
              "for ALL finite closed DAGs and timestamps; the commit-graph topological node walkers are exercised by the oracle only")
TRUSTED = [
    "C-impl: Repository.Log and commitgraph.NewCommitNodeIter* (object- and commit-graph-backed) vs Model/LogWalk on every case",
    "C-git: the reachable set is taken from git rev-list [--first-parent] [--max-age/--min-age] on DAGs materialised with git fast-import",
]
ASSUMPTIONS = ["reference iteration order is fixed by the harness (sorted by name) for Log(All): the memory storage iterates a Go map",
               "time limits are compared with git on monotone clocks only (git's own --since cut-off is heuristic under skew); otherwise with the plain filter"]
RULE = ("case = DAG (shapes x timestamp modes as in C42) x {Log order 0..5 from a commit with optional since/until/tail limits, "
        "Log(All) over 2-4 branch tips, commit-graph node walkers ctime/topo/date/author over both index kinds}; non-trivial = the "
        "walk visits >= 3 commits of a graph with a merge or a skewed clock; distinct by content")

ORDERS = {0: "default", 1: "dfs", 2: "dfspost", 3: "bfs", 4: "ctime", 5: "dfspostfp"}


def opt(x):
    return "None" if x is None else "(Some %s)" % x


class Main(Suite):
    name = "main"
    go_cmd = "c43"
    coq_imports = "From GoGit Require Import Spec.Dag Model.CommitWalk Model.LogWalk."
    quick_n = 360
    thorough_n = 4000

    def gen(self, rng, n, tier):
        cases = []
        for _ in range(n):
            sh = pick_weighted(rng, D.SHAPES)
            st = pick_weighted(rng, D.STAMPS)
            k = rng.choice([1, 2, 3, 4, 5, 5, 6, 7, 8, 9, 10, 12])
            par = D.shape(rng, sh, k)
            times = D.stamp(rng, st, par)
            kind = pick_weighted(rng, [(6, "log"), (2, "limit"), (2, "all"), (3, "node")])
            frm = rng.choice([k - 1, k - 1, rng.randrange(k)])
            c = {"par": par, "times": times, "kind": "log", "order": rng.randrange(6), "from": frm,
                 "since": None, "until": None, "tail": None, "all": False, "tips": [], "bucket": "%s/%s/%s" % (kind, sh, st)}
            if kind == "limit":
                ts = sorted(set(times))
                r = rng.random()
                if r < 0.45:
                    c["since"] = rng.choice(ts) + rng.choice([-1, 0, 0, 1])
                if 0.3 < r < 0.75:
                    c["until"] = rng.choice(ts) + rng.choice([-1, 0, 0, 1])
                if r >= 0.6:
                    c["tail"] = rng.randrange(k)
            elif kind == "all":
                c["all"] = True
                c["tips"] = [rng.randrange(k) for _ in range(rng.choice([1, 2, 2, 3, 4]))]
                c["from"] = c["tips"][0]
                if rng.random() < 0.2:
                    c["since"] = rng.choice(times)
            elif kind == "node":
                c = {"par": par, "times": times, "kind": "node", "norder": rng.choice(["ctime", "ctime", "topo", "date", "author"]),
                     "from": frm, "bucket": c["bucket"]}
            cases.append(c)
        if tier == "thorough":
            for k in (1, 2, 3, 4):
                for par in D.all_dags(k):
                    tss = list(D.weak_orders(k)) if k <= 3 else [None]
                    for ranks in tss:
                        times = [D.T0 + 10 * r for r in ranks] if ranks else D.stamp(rng, "skew", par)
                        for order in range(6):
                            cases.append({"par": par, "times": times, "kind": "log", "order": order, "from": k - 1,
                                          "since": None, "until": None, "tail": None, "all": False, "tips": [], "bucket": "exh%d/log" % k})
                        for no in ("ctime", "topo", "date"):
                            cases.append({"par": par, "times": times, "kind": "node", "norder": no, "from": k - 1, "bucket": "exh%d/node" % k})
            for par in D.all_dags(5):
                times = D.stamp(rng, rng.choice(["perm", "ties", "reversed", "skew", "mono"]), par)
                cases.append({"par": par, "times": times, "kind": "log", "order": rng.randrange(6), "from": 4,
                              "since": None, "until": None, "tail": None, "all": False, "tips": [], "bucket": "exh5/log"})
        return cases

    def model_expr(self, c):
        d = D.coq_dag(c["par"], c["times"])
        if c["kind"] == "log":
            lim = "%s %s %s" % (opt("(%d)%%Z" % c["since"] if c["since"] is not None else None),
                                opt("(%d)%%Z" % c["until"] if c["until"] is not None else None),
                                opt(c["tail"]))
            if c["all"]:
                return "c43_all %s %d %s %s" % (d, c["order"], D.coq_nat_list(c["tips"]), lim)
            return "c43_log %s %d %d %s" % (d, c["order"], c["from"], lim)
        if c["kind"] == "node" and c["norder"] == "ctime":
            return "c43_node_ctime %s %d" % (d, c["from"])
        return None

    def nontrivial(self, c):
        par = c["par"]
        anc = D.anc_sets(par)
        starts = c["tips"] if c.get("all") else [c["from"]]
        visited = set().union(*[anc[s] for s in starts])
        skew = any(c["times"][p] >= c["times"][i] for i in range(len(par)) for p in par[i])
        return len(visited) >= 3 and (any(len(ps) > 1 for ps in par) or skew)

    # ---- the property on the implementation
    @staticmethod
    def parse(out):
        """'( ok ( 1 2 ) )' -> [1,2]; None if not ok"""
        t = out.split()
        if t[:2] != ["(", "ok"]:
            return None
        return [int(x) for x in t[3:-2]]

    @staticmethod
    def contracts(par, times, order, start, L, first_parent=False):
        n = len(par)
        if len(set(L)) != len(L):
            return "a commit is yielded twice: %s" % L
        pos = {c: i for i, c in enumerate(L)}
        for x in L:
            if x == start:
                continue
            ok = any((x == par[y][0] if first_parent else x in par[y]) for y in L[:pos[x]] if par[y])
            if not ok:
                return "commit %d is yielded before any of its children (%s)" % (x, L)
        if order == "bfs":
            dist = {start: 0}
            frontier = [start]
            while frontier:
                nxt = []
                for y in frontier:
                    for p in par[y]:
                        if p not in dist:
                            dist[p] = dist[y] + 1
                            nxt.append(p)
                frontier = nxt
            ds = [dist.get(x, -1) for x in L]
            if ds != sorted(ds):
                return "BFS order is not by level: %s levels %s" % (L, ds)
        if order == "ctime":
            emitted = set()
            for x in L:
                fr = {p for y in emitted for p in par[y] if p not in emitted}
                if fr and times[x] < max(times[f] for f in fr):
                    return "committer-time order: %d (t=%d) yielded while a newer frontier commit is pending (%s)" % (x, times[x], L)
                emitted.add(x)
        if order == "topo":
            for x in L:
                for p in par[x]:
                    if p in pos and pos[p] < pos[x]:
                        return "parent %d is yielded before its child %d (%s)" % (p, x, L)
        return None

    def oracle(self, ctx, cases, impl, model):
        fails = {}
        repo = D.GitDags(ctx.tmp)
        for c in cases:
            repo.add(c["id"], c["par"], c["times"])
        repo.flush()

        def revlist(c):
            i, n = c["id"], len(c["par"])
            args = ["rev-list"]
            starts = c["tips"] if c.get("all") else [c["from"]]
            if c.get("order") == 5 and c["kind"] == "log":
                args.append("--first-parent")
            mono = all(c["times"][p] < c["times"][x] for x in range(n) for p in c["par"][x])
            usegit = mono
            if c.get("since") is not None and usegit:
                args.append("--max-age=%d" % c["since"])
            if c.get("until") is not None and usegit:
                args.append("--min-age=%d" % c["until"])
            rc, out, err = repo.git(*(args + [repo.sha[(i, s)] for s in starts]))
            if rc != 0:
                return None
            s = set(repo.nodes(i, out, n))
            if not usegit:
                if c.get("since") is not None:
                    s = {x for x in s if c["times"][x] >= c["since"]}
                if c.get("until") is not None:
                    s = {x for x in s if c["times"][x] <= c["until"]}
            return s

        sets = D.pmap(revlist, cases)
        for c, want in zip(cases, sets):
            r = impl.get(c["id"])
            got = r["out"] if r else "<no reply>"
            if want is None:
                fails[c["id"]] = "git rev-list failed"
                continue
            par, times = c["par"], c["times"]
            if c["kind"] == "log":
                L = self.parse(got)
                if L is None:
                    fails[c["id"]] = "log failed: %s" % got
                    continue
                if len(set(L)) != len(L):
                    fails[c["id"]] = "a commit is yielded twice: %s" % L
                    continue
                tail = c.get("tail")
                if tail is not None and tail in want:
                    if not L or L[-1] != tail or not set(L) <= want:
                        fails[c["id"]] = "tail limit: expected a walk ending at %d within %s, got %s" % (tail, sorted(want), L)
                    continue
                if set(L) != want:
                    fails[c["id"]] = "commits yielded %s, git rev-list %s" % (sorted(L), sorted(want))
                    continue
                if not c["all"] and c["since"] is None and c["until"] is None:
                    why = self.contracts(par, times, ORDERS[c["order"]], c["from"], L, first_parent=(c["order"] == 5))
                    if why:
                        fails[c["id"]] = why
            else:
                both = self.parse_two(got)
                if both is None:
                    fails[c["id"]] = "node walk failed: %s" % got
                    continue
                for which, L in zip(("object-backed", "graph-backed"), both):
                    if set(L) != want or len(set(L)) != len(L):
                        fails[c["id"]] = "%s %s walk yields %s, git rev-list %s" % (which, c["norder"], L, sorted(want))
                        break
                    why = self.contracts(par, times, "ctime" if c["norder"] == "ctime" else "topo", c["from"], L)
                    if why:
                        fails[c["id"]] = which + ": " + why
                        break
                else:
                    if c["norder"] == "ctime" and both[0] != both[1]:
                        fails[c["id"]] = "commit-graph-backed ctime walk %s differs from object-backed %s" % (both[1], both[0])
        return fails

    @staticmethod
    def parse_two(out):
        # "( ( ok ( 1 2 ) ) ( ok ( 1 2 ) ) )"
        t = out.split()
        res, i = [], 1
        while i < len(t) - 1:
            if t[i:i + 3] != ["(", "ok", "("]:
                return None
            j = t.index(")", i)
            res.append([int(x) for x in t[i + 3:j]])
            i = j + 2
        return res if len(res) == 2 else None

    def finding_class(self, case, reason, reply):
        if case["kind"] == "log" and case.get("all") and len(set(case["tips"])) > 1 and reason.startswith("commits yielded"):
            return "log-all-stops-at-first-listed-commit"
        if case["kind"] == "node" and case["norder"] in ("topo", "date", "author") and reason.startswith("object-backed"):
            return "objnode-topological-walk-repeats-commits"
        return None


SUITES = [Main()]
