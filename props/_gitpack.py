"""git 2.39.5 as the oracle for delta application and pack acceptance (C06, C07).

A delta is given to git's own patch_delta by embedding it as a REF_DELTA entry
next to its base blob in a small pack and running `git index-pack` on it:
index-pack resolves the delta with patch_delta() and fails ("failed to apply
delta") when patch_delta() returns NULL.  The bytes git produced are identified
through their object id in the .idx it writes (sha1("blob <n>\\0" + bytes)).
"""
import hashlib
import os
import struct
import subprocess
import zlib

GIT = "/usr/bin/git"
ENV = dict(os.environ, GIT_CONFIG_NOSYSTEM="1", GIT_CONFIG_GLOBAL="/dev/null", HOME="/nonexistent", LC_ALL="C")

OBJ_BLOB, OBJ_OFS, OBJ_REF = 3, 6, 7


def blob_oid(b):
    return hashlib.sha1(b"blob %d\0" % len(b) + b).digest()


def entry_header(typ, size):
    c = (typ << 4) | (size & 15)
    size >>= 4
    out = bytearray()
    while size:
        out.append(c | 0x80)
        c = size & 0x7f
        size >>= 7
    out.append(c)
    return bytes(out)


def make_pack(src, deltas):
    """pack = base blob `src` + one REF_DELTA entry per delta (all against src)"""
    base = blob_oid(src)
    body = bytearray(b"PACK" + struct.pack(">II", 2, 1 + len(deltas)))
    body += entry_header(OBJ_BLOB, len(src)) + zlib.compress(src, 1)
    for d in deltas:
        body += entry_header(OBJ_REF, len(d)) + base + zlib.compress(d, 1)
    body += hashlib.sha1(body).digest()
    return bytes(body)


def read_idx_oids(path, hashlen=20):
    data = open(path, "rb").read()
    if data[:8] != b"\xfftOc\x00\x00\x00\x02":
        raise ValueError("not a v2 idx")
    n = struct.unpack(">I", data[8 + 255 * 4: 8 + 256 * 4])[0]
    off = 8 + 1024
    return [data[off + hashlen * i: off + hashlen * (i + 1)] for i in range(n)]


def obj_oid(typ, b, fmt="sha1"):
    h = hashlib.sha256() if fmt == "sha256" else hashlib.sha1()
    h.update(b"%s %d\0" % (typ.encode(), len(b)) + b)
    return h.digest()


TYPE_NUM = {"commit": 1, "tree": 2, "blob": 3, "tag": 4}


def make_pack_entries(entries, fmt="sha1"):
    """entries: list of ('full', type, content) | ('ref', base oid bytes, delta bytes) -> pack bytes"""
    body = bytearray(b"PACK" + struct.pack(">II", 2, len(entries)))
    for e in entries:
        if e[0] == "full":
            body += entry_header(TYPE_NUM[e[1]], len(e[2])) + zlib.compress(e[2], 1)
        else:
            body += entry_header(OBJ_REF, len(e[2])) + e[1] + zlib.compress(e[2], 1)
    h = hashlib.sha256() if fmt == "sha256" else hashlib.sha1()
    h.update(body)
    return bytes(body) + h.digest()


def verify_pack(tmp, name="p", fmt="sha1"):
    """`git verify-pack -v` on tmp/<name>.idx -> (ok, {oid hex: (type, size, depth, base hex or None)} or stderr)"""
    p = subprocess.run([GIT, "verify-pack", "-v"] + (["--object-format=sha256"] if fmt == "sha256" else []) +
                       [os.path.join(tmp, name + ".idx")], cwd=tmp, env=ENV,
                       stdout=subprocess.PIPE, stderr=subprocess.PIPE, timeout=120)
    if p.returncode != 0:
        return False, p.stderr.decode("utf-8", "replace")
    res = []
    for line in p.stdout.decode().splitlines():
        f = line.split()
        if len(f) >= 5 and f[1] in TYPE_NUM:
            res.append((f[0], f[1], int(f[2]), int(f[5]) if len(f) >= 7 else 0, f[6] if len(f) >= 7 else None, int(f[4])))
    return True, res


def index_pack(tmp, pack, name="p", strict=False, fmt="sha1"):
    """-> (ok, [oids] or stderr text)"""
    pp = os.path.join(tmp, name + ".pack")
    ip = os.path.join(tmp, name + ".idx")
    with open(pp, "wb") as f:
        f.write(pack)
    try:
        os.remove(ip)
    except OSError:
        pass
    args = [GIT, "index-pack"] + (["--strict"] if strict else []) + (["--object-format=sha256"] if fmt == "sha256" else []) + ["-o", ip, pp]
    p = subprocess.run(args, cwd=tmp, env=ENV, stdout=subprocess.PIPE, stderr=subprocess.PIPE, timeout=120)
    if p.returncode != 0:
        return False, p.stderr.decode("utf-8", "replace")
    oids = read_idx_oids(ip, 32 if fmt == "sha256" else 20)
    return True, oids


def unpack_objects(tmp, pack):
    """`git unpack-objects` into a fresh bare repository -> (ok, [oids of the loose objects] or stderr)"""
    import shutil
    repo = os.path.join(tmp, "unpack.git")
    shutil.rmtree(repo, ignore_errors=True)
    subprocess.run([GIT, "init", "-q", "--bare", repo], env=ENV, check=True, stdout=subprocess.PIPE, stderr=subprocess.PIPE)
    p = subprocess.run([GIT, "--git-dir", repo, "unpack-objects", "-q"], input=pack, env=ENV,
                       stdout=subprocess.PIPE, stderr=subprocess.PIPE, timeout=120)
    if p.returncode != 0:
        shutil.rmtree(repo, ignore_errors=True)
        return False, p.stderr.decode("utf-8", "replace")
    oids = []
    od = os.path.join(repo, "objects")
    for d in sorted(os.listdir(od)):
        if len(d) == 2:
            for f in sorted(os.listdir(os.path.join(od, d))):
                oids.append(bytes.fromhex(d + f))
    shutil.rmtree(repo, ignore_errors=True)
    return True, oids


def git_apply_one(tmp, src, delta):
    """git's patch_delta on (src, delta): -> ('ok', oid of the result) | ('reject', stderr)"""
    ok, r = index_pack(tmp, make_pack(src, [delta]))
    if not ok and "already resolved" in r:
        # index-pack refuses a delta whose result has the id of its own base (identity delta);
        # unpack-objects applies the same patch_delta() and has no such restriction
        ok, r = unpack_objects(tmp, make_pack(src, [delta]))
        if not ok:
            return "reject", r
        base = blob_oid(src)
        others = [o for o in r if o != base]
        if len(others) > 1 or base not in r:
            return "reject", "unexpected object set after unpack-objects"
        return "ok", (others[0] if others else base)
    if not ok:
        return "reject", r
    base = blob_oid(src)
    others = [o for o in r if o != base]
    if len(r) != 2:
        return "reject", "unexpected idx size %d" % len(r)
    if not others:            # result identical to the base
        return "ok", base
    return "ok", others[0]


def make_pack_multi(pairs):
    """pack = every distinct source as a blob + one REF_DELTA entry per (src, delta) pair against its own source"""
    srcs = []
    seen = set()
    for src, _ in pairs:
        if src not in seen:
            seen.add(src)
            srcs.append(src)
    body = bytearray(b"PACK" + struct.pack(">II", 2, len(srcs) + len(pairs)))
    for src in srcs:
        body += entry_header(OBJ_BLOB, len(src)) + zlib.compress(src, 1)
    for src, d in pairs:
        body += entry_header(OBJ_REF, len(d)) + blob_oid(src) + zlib.compress(d, 1)
    body += hashlib.sha1(body).digest()
    return bytes(body), [blob_oid(x) for x in srcs]


def git_apply_many(tmp, items):
    """items: list of (key, src, delta, expected) with expected = blob id (20 bytes) of the result predicted by
    some implementation, or None when a rejection is predicted.  Returns {key: ('ok', oid) | ('reject', text)}.
    Predicted-ok deltas (of any sources) are batched into one pack as long as all object ids in the batch are
    distinct; a batch that does not come back exactly as predicted is re-run delta by delta, so the answer never
    depends on the prediction.  Predicted rejections are always run one by one."""
    res = {}
    singles = []
    batches = []
    cur, cur_src, cur_exp = [], set(), set()
    for it in items:
        key, src, delta, exp = it
        so = blob_oid(src)
        if exp is None or exp == so:
            singles.append(it)
            continue
        if exp in cur_exp or exp in cur_src or so in cur_exp or len(cur) >= 48:
            batches.append(cur)
            cur, cur_src, cur_exp = [], set(), set()
        cur.append(it)
        cur_src.add(so)
        cur_exp.add(exp)
    if cur:
        batches.append(cur)
    for chunk in batches:
        pack, src_oids = make_pack_multi([(s_, d) for _, s_, d, _ in chunk])
        ok, r = index_pack(tmp, pack)
        want = sorted(src_oids + [e for _, _, _, e in chunk])
        if ok and sorted(r) == want:
            for key, _, _, e in chunk:
                res[key] = ("ok", e)
        else:
            singles.extend(chunk)
    for key, src, delta, _ in singles:
        res[key] = git_apply_one(tmp, src, delta)
    return res
