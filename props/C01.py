"""C01 Object IDs and loose objects are identical to git's (DESIGN.md §4.C01)."""
import hashlib
import os
import shutil
import subprocess
import tempfile
import zlib

from vf.core import Suite, coq_hex, coq_list, coq_Z
from vf.gen import pick_weighted

ID = "C01"
THEOREMS = [
    "C01_header_roundtrip", "C01_budget", "C01_writer_accepts",
    "C01_paths_agree", "C01_oid_is_git", "C01_git_reads", "C01_reads_git",
    "C01_reads_all_git_accepts", "C01_reader_lenient_refuted",
    "C01_short_write", "C01_overflow_truncates", "C01_chunking_independent", "C01_read_header_spec",
    "C01_format_current", "C01_format_fields", "C01_memobj_fresh", "C01_memobj_stale_refuted",
    "C01_sha_extend", "C01_digest_shape",
]
MODEL_FILES = ["ObjFile.v"]
MODELLED = (
    "Model/ObjFile.v: plumbing ObjectType.String/Valid/ParseObjectType, Hasher (NewHasher/Reset/Write/Sum), "
    "ObjectHasher.Compute, MemoryObject (SetType/SetSize/Write/Hash incl. the cached hash), objfile.Writer "
    "(WriteHeader/writeHeader incl. maxHeaderLen from Gen, Write with the pending cut, Hash), objfile.Reader "
    "(Header/readUntil with the byte budget, strconv.ParseInt(…,10,64), Read-to-EOF, Hash), the write paths "
    "filesystem SetEncodedObject / RawObjectWriter / LazyWriter / worktree Add and memory SetEncodedObject reduced to "
    "(format, type, declared size, chunks); the hasher selection of both storages (NewStorageWithOptions incl. the "
    "config-file override, Storage.SetObjectFormat, ConfigStorage.Config, memory NewStorage/SetObjectFormat) as the state "
    "(config, DotGit format, ObjectHasher format, reader format) each write path reads; Spec/SHA.v executable SHA-1 and SHA-256; Spec/LooseGit.v git's "
    "format_object_header / unpack_loose_header / parse_loose_header. Not modelled (exercised only): zlib, the "
    "streaming hash implementations of Go's crypto packages, billy filesystems, temp-file/rename plumbing, caches")
TRUSTED = [
    "C-impl: harness/cmd/c01 (fresh memfs storage per case) vs Model/ObjFile c01_run_write / c01_run_read; contents above 2 KiB are not evaluated in Coq (oracle only)",
    "C-git: git 2.39.5 hash-object --literally / cat-file --batch on the files go-git wrote; loose objects written by git hash-object -w read back through go-git; Spec/LooseGit.git_parse vs git cat-file -t/-s on hand-made headers",
    "Spec/SHA sha1/sha256 validated on every case against Go (through go-git's hashers), python hashlib and git hash-object",
    "compress/zlib (Go) and zlib (python) to inflate/deflate in the harness",
]
ASSUMPTIONS = [
    "zlib: inflate(deflate(x)) = x (the theorems are stated on the inflated stream)",
    "a hash.Hash behaves as H(concatenation of the writes) (Go's crypto/sha1, crypto/sha256, sha1cd streaming implementations; exercised, not modelled)",
    "git's loose-object header grammar is as Spec/LooseGit.git_parse says (validated against the git binary on each run)",
]
RULE = ("case = (entry point, object format or storage history [constructor option, pre-existing config, SetObjectFormat calls, or a real "
        "in-process clone of a git-made SHA-1/SHA-256 repository], type, declared size, content split in chunks) or a git-written / hand-made loose "
        "file; contents from buckets {empty, NUL-rich, header-like prefix, SHA block boundaries, size grid, real object "
        "shapes, random, large}; non-trivial = non-empty content or a size/header anomaly; distinct by content")

GIT = "/usr/bin/git"
GIT_TYPES = ["blob", "tree", "commit", "tag"]
FILE_ENTRIES = ("raw", "lazy", "set", "set_late", "set_stale", "add", "clone_raw", "clone_lazy", "clone_set", "clone_add")
# storage histories: (constructor option, objectformat of a pre-existing config file or "none", SetObjectFormat calls).
# ("", "none", ["sha256"]) is what PlainClone of a SHA-256 remote does to a freshly initialised repository.
HISTORIES = [("", "none", ["sha256"]), ("", "none", ["sha256"]), ("", "none", ["sha1"]), ("sha1", "none", ["sha256"]),
             ("sha256", "none", ["sha1"]), ("sha256", "", []), ("", "sha256", []), ("sha256", "sha1", []),
             ("", "none", ["sha256", "sha1"]), ("", "none", ["sha256", "sha256"]), ("", "sha256", ["sha1"]),
             ("", "none", ["", "sha256"]), ("sha1", "sha1", ["sha256"]), ("", "none", []), ("sha256", "none", ["sha256"])]
HIST_ENTRIES = ("raw", "lazy", "set", "set_late", "add", "mem", "mem_late")


def repo_format(entry, ctor, cfgfile, switch):
    """the format the repository is in (what git hashes with): last accepted SetObjectFormat, else the config file, else the option"""
    cur = ctor if (cfgfile == "none" or entry.startswith("mem")) else cfgfile
    for s in switch:
        if s in ("sha1", "sha256"):
            cur = s
    return "sha256" if cur == "sha256" else "sha1"
MODEL_MAX = 2048
GITENV = dict(os.environ, GIT_CONFIG_NOSYSTEM="1", GIT_CONFIG_GLOBAL="/dev/null", HOME="/nonexistent",
              GIT_AUTHOR_NAME="v", GIT_AUTHOR_EMAIL="v@v", GIT_COMMITTER_NAME="v", GIT_COMMITTER_EMAIL="v@v")


def git(args, cwd, inp=None, check=True):
    p = subprocess.run([GIT] + args, cwd=cwd, input=inp, stdout=subprocess.PIPE, stderr=subprocess.PIPE, env=GITENV, timeout=300)
    if check and p.returncode != 0:
        raise RuntimeError("git %s failed: %s" % (" ".join(args), p.stderr.decode("utf-8", "replace")[:300]))
    return p


def git_init(path, fmt):
    os.makedirs(path, exist_ok=True)
    git(["init", "-q", "--bare", "--object-format=" + fmt, "."], path)


# ---------------------------------------------------------------- content generators

BLOCK_EDGES = [54, 55, 56, 57, 62, 63, 64, 65, 118, 119, 120, 127, 128, 129, 183, 184]
GRID_SMALL = [0, 1, 2, 15, 16, 17, 126, 127, 128, 255, 256, 1000, 2047, 2048]


def content(rng, bucket):
    if bucket == "empty":
        return b""
    if bucket == "nul":
        n = rng.randrange(1, 40)
        return bytes(rng.choice([0, 0, 0, 1, 255, 10]) for _ in range(n))
    if bucket == "hdrlike":
        t = rng.choice([b"blob", b"tree", b"commit", b"tag", b"ofs-delta", b"blob "])
        return t + b" " + str(rng.choice([0, 3, 7, 10, 100])).encode() + b"\0" + bytes(rng.randrange(256) for _ in range(rng.randrange(0, 12)))
    if bucket == "edge":
        # header is "blob N\0" (7-8 bytes) etc: aim the total at SHA block boundaries too
        n = rng.choice(BLOCK_EDGES) - rng.choice([0, 0, 7, 8, 9, 10])
        return bytes(rng.randrange(256) for _ in range(max(n, 0)))
    if bucket == "grid":
        return bytes(rng.randrange(256) for _ in range(rng.choice(GRID_SMALL)))
    if bucket == "shape":
        k = rng.randrange(3)
        if k == 0:   # a tree entry list
            out = b""
            for i in range(rng.randrange(1, 4)):
                out += rng.choice([b"100644", b"40000", b"100755", b"120000"]) + b" " + b"f%d" % i + b"\0" + bytes(rng.randrange(256) for _ in range(20))
            return out
        if k == 1:   # a commit
            return (b"tree " + b"4b825dc642cb6eb9a060e54bf8d69288fbee4904" + b"\nauthor A <a@b> %d +0000\ncommitter A <a@b> %d +0000\n\nmsg %d\n"
                    % (rng.randrange(10**9), rng.randrange(10**9), rng.randrange(1000)))
        return b"object 4b825dc642cb6eb9a060e54bf8d69288fbee4904\ntype tree\ntag v%d\ntagger A <a@b> 1 +0000\n\nm\n" % rng.randrange(100)
    if bucket == "text":
        return b"".join(rng.choice([b"hello\n", b"world\r\n", b"\n", b"x" * rng.randrange(1, 30) + b"\n"]) for _ in range(rng.randrange(1, 20)))
    if bucket == "large":
        n = rng.choice([65535, 65536, 65537, 1 << 20, (1 << 20) + 1])
        seed = rng.randrange(256)
        return bytes((i * 131 + seed + (i >> 8)) & 255 for i in range(n))
    return bytes(rng.randrange(256) for _ in range(rng.randrange(1, 200)))


CONTENT_BUCKETS = [(1, "empty"), (2, "nul"), (2, "hdrlike"), (3, "edge"), (2, "grid"), (2, "shape"), (1, "text"), (3, "random")]


def split(rng, b):
    """random chunking of b (possibly with empty chunks)"""
    k = pick_weighted(rng, [(3, 1), (2, 2), (2, 3), (1, 6)])
    if k == 1 or not b:
        return [b] if (b or rng.random() < 0.5) else []
    cuts = sorted(rng.randrange(len(b) + 1) for _ in range(k - 1))
    out, prev = [], 0
    for c in cuts + [len(b)]:
        out.append(b[prev:c])
        prev = c
    return out


class Write(Suite):
    """every object-writing entry point vs the model; oracle = git reads / names the same"""
    name = "write"
    go_cmd = "c01"
    coq_imports = "From GoGit Require Import Spec.SHA Model.ObjFile."
    quick_n = 200
    thorough_n = 1600
    coq_chunk = 50

    def gen(self, rng, n, tier):
        cases = []
        entries = [(3, "raw"), (2, "lazy"), (3, "set"), (1, "set_late"), (2, "mem"), (1, "mem_late"), (2, "add"), (2, "compute"), (2, "hasher"), (0.4, "set_stale")]
        nlarge = 2 if tier == "quick" else 12
        for i in range(n):
            entry = pick_weighted(rng, entries)
            fmt = rng.choice(["sha1", "sha256"])
            ty = rng.choice(GIT_TYPES) if rng.random() < 0.9 else rng.choice(["ofs-delta", "ref-delta"])
            cb = "large" if i < nlarge else pick_weighted(rng, CONTENT_BUCKETS)
            c = content(rng, cb)
            rel = pick_weighted(rng, [(8, "eq"), (1, "short"), (1, "over"), (0.5, "neg"), (0.5, "huge")])
            if entry in ("compute", "add", "set_stale"):
                rel = "eq"
            if entry in ("set", "mem") and rel != "eq":
                # SetSize before Write is overwritten by Write: only the _late variants can disagree
                entry += "_late"
            if entry in ("set_late", "mem_late") and rel == "eq" and rng.random() < 0.5:
                entry = entry[:-5]
            if entry == "add":
                ty = "blob"
            if ty in ("ofs-delta", "ref-delta") and entry in ("compute", "hasher"):
                ty = "blob"
            size = len(c)
            if rel == "short":
                size = len(c) + rng.choice([1, 2, 10, 1000])
            elif rel == "over":
                size = max(0, len(c) - rng.choice([1, 2, 10, len(c)]))
                if size == len(c):
                    rel = "eq"
            elif rel == "neg":
                size = -rng.choice([1, 2, 1 << 40])
                if entry.startswith("set") or entry.startswith("mem"):
                    size, rel = len(c), "eq"     # negative sizes through SetEncodedObject: the corpus witness (panic)
            elif rel == "huge":
                size = rng.choice([(1 << 62), (1 << 63) - 1, 10**18, 10**17 - 1])
            chunks = split(rng, c)
            hist = None
            if entry in HIST_ENTRIES and rng.random() < 0.4:
                hist = rng.choice(HISTORIES)
                fmt = repo_format(entry, *hist)
            if entry == "set_stale":
                chunks = chunks or [b""]
                if ty not in GIT_TYPES:
                    ty = "blob"
            case = {"bucket": "%s/%s/%s" % (entry, cb, rel), "kind": "write", "entry": entry, "fmt": fmt, "type": ty,
                    "size": str(size), "rel": rel, "chunks": [x.hex() for x in chunks]}
            if hist is not None:
                case["bucket"] = "%s/switch/%s" % (entry, rel)
                case.update({"ctor": hist[0], "cfgfile": "none" if entry.startswith("mem") else hist[1], "switch": list(hist[2])})
            cases.append(case)
        # every entry point after the run-time switch of a clone, and after a real in-process clone of a git-made repository
        for k, entry in enumerate(["raw", "lazy", "set", "add", "mem"]):
            c = content(rng, "text")
            cases.append({"bucket": "%s/switch/eq" % entry, "kind": "write", "entry": entry, "fmt": "sha256", "type": "blob",
                          "size": str(len(c)), "rel": "eq", "chunks": [c.hex()], "ctor": "", "cfgfile": "none", "switch": ["sha256"]})
        nclone = 4 if tier == "quick" else 24
        for k in range(nclone):
            entry = ["clone_set", "clone_add", "clone_raw", "clone_lazy"][k % 4]
            fmt = "sha256" if k % 8 < 6 else "sha1"
            c = content(rng, pick_weighted(rng, CONTENT_BUCKETS))
            cases.append({"bucket": "%s/%s" % (entry, fmt), "kind": "write", "entry": entry, "fmt": fmt, "type": "blob" if entry == "clone_add" else rng.choice(GIT_TYPES),
                          "size": str(len(c)), "rel": "eq", "chunks": [x.hex() for x in split(rng, c)] or [""]})
        return cases

    def model_expr(self, c):
        total = sum(len(x) // 2 for x in c["chunks"])
        if total > MODEL_MAX:
            return None
        chunks = coq_list(['"%s"' % x for x in c["chunks"]])
        if c["entry"].startswith("clone_"):
            # Init with defaults, then the negotiation switches the storage when the remote is SHA-256
            sw = ['"sha256"'] if c["fmt"] == "sha256" else []
            return 'c01_run_write_st "%s" "" "none" %s "%s" %s %s' % (c["entry"][6:], coq_list(sw), c["type"], coq_Z(int(c["size"])), chunks)
        if "ctor" in c:
            return 'c01_run_write_st "%s" "%s" "%s" %s "%s" %s %s' % (c["entry"], c["ctor"], c.get("cfgfile", "none"),
                                                                       coq_list(['"%s"' % x for x in c["switch"]]), c["type"], coq_Z(int(c["size"])), chunks)
        return 'c01_run_write "%s" "%s" "%s" %s %s' % (c["entry"], c["fmt"], c["type"], coq_Z(int(c["size"])), chunks)

    def nontrivial(self, c):
        return any(c["chunks"]) or c.get("rel", "eq") != "eq"

    def key(self, c):
        return "|".join([c["entry"], c["fmt"], c["type"], str(c["size"]), c.get("ctor", "-"), c.get("cfgfile", "-"), ",".join(c.get("switch", []))] + c["chunks"])

    def show(self, c):
        d = dict(c)
        if sum(len(x) for x in d.get("chunks", [])) > 600:
            d["chunks"] = ["<%d bytes, sha1 %s>" % (len(x) // 2, hashlib.sha1(bytes.fromhex(x)).hexdigest()) for x in d["chunks"]]
        return d

    # the property: for a well-formed write of a git type, the ID equals git's and git reads the file back
    def applicable(self, c):
        total = sum(len(x) // 2 for x in c["chunks"])
        return c["type"] in GIT_TYPES and int(c["size"]) == total

    def oracle(self, ctx, cases, impl, model):
        fails = {}
        todo = [c for c in cases if c.get("kind") == "write" and self.applicable(c)]
        if not todo:
            return fails
        root = os.path.join(ctx.tmp, "c01w")
        repos = {}
        for fmt in ("sha1", "sha256"):
            repos[fmt] = os.path.join(root, fmt)
            git_init(repos[fmt], fmt)
        # 1. git's ID for (type, content): hash-object --literally --stdin-paths, one process per (fmt, type)
        want = {}
        groups = {}
        for c in todo:
            data = b"".join(bytes.fromhex(x) for x in c["chunks"])
            p = os.path.join(root, "in-%d" % c["id"])
            with open(p, "wb") as f:
                f.write(data)
            groups.setdefault((c["fmt"], c["type"]), []).append((c["id"], p))
        for (fmt, ty), items in sorted(groups.items()):
            p = git(["hash-object", "-t", ty, "--literally", "--stdin-paths"], repos[fmt], inp="".join(x[1] + "\n" for x in items).encode())
            ids = p.stdout.decode().split()
            if len(ids) != len(items):
                raise RuntimeError("git hash-object answered %d/%d" % (len(ids), len(items)))
            for (cid, _), h in zip(items, ids):
                want[cid] = h
        # 2. parse the implementation's answers; install the files go-git wrote into the git repos
        ask = {"sha1": [], "sha256": []}
        for c in todo:
            i = c["id"]
            r = impl.get(i)
            if r is None:
                fails[i] = "no reply from the implementation"
                continue
            out = r["out"]
            if c["entry"] in ("compute", "hasher"):
                if out != "x" + want[i]:
                    fails[i] = "ID %s differs from git hash-object %s" % (out, want[i])
                continue
            parts = out.split()
            if len(parts) < 4 or parts[1] != "w" or not parts[2].startswith("x") or parts[3] != "noerr":
                fails[i] = "write did not succeed with an ID: %s" % out[:200]
                continue
            got = parts[2][1:]
            if got != want[i]:
                fails[i] = "returned ID %s differs from git hash-object %s" % (got, want[i])
                continue
            if c["entry"] in FILE_ENTRIES:
                ex = r.get("extra") or {}
                if "deflated" not in ex:
                    fails[i] = "no loose file was written"
                    continue
                rel = ex["rel"]
                if rel.replace("objects/", "").replace("/", "") != got:
                    fails[i] = "loose file stored as %s, not under the returned ID %s" % (rel, got)
                    continue
                dst = os.path.join(repos[c["fmt"]], rel)
                os.makedirs(os.path.dirname(dst), exist_ok=True)
                with open(dst, "wb") as f:
                    f.write(bytes.fromhex(ex["deflated"]))
                ask[c["fmt"]].append(c)
            elif c["entry"].startswith("mem"):
                ex = r.get("extra") or {}
                data = b"".join(bytes.fromhex(x) for x in c["chunks"])
                if ex.get("mem_lookup") != c["type"] + " " + data.hex():
                    fails[i] = "memory storage does not return the object under its ID: %s" % str(ex.get("mem_lookup"))[:100]
        # 3. git reads every file back: type, size, bytes
        for fmt, cs in ask.items():
            if not cs:
                continue
            p = git(["cat-file", "--batch"], repos[fmt], inp="".join(want[c["id"]] + "\n" for c in cs).encode(), check=False)
            buf, pos = p.stdout, 0
            for c in cs:
                i = c["id"]
                data = b"".join(bytes.fromhex(x) for x in c["chunks"])
                nl = buf.find(b"\n", pos)
                if nl < 0:
                    fails[i] = "git cat-file --batch gave no answer (rc=%d, stderr=%s)" % (p.returncode, p.stderr.decode("utf-8", "replace")[:200])
                    continue
                head = buf[pos:nl].decode("utf-8", "replace").split()
                if len(head) != 3:
                    fails[i] = "git cat-file: %s" % " ".join(head)
                    pos = nl + 1
                    continue
                size = int(head[2])
                body = buf[nl + 1:nl + 1 + size]
                pos = nl + 1 + size + 1
                if head[1] != c["type"] or size != len(data) or body != data:
                    fails[i] = "git reads %s %d bytes (sha1 %s), written %s %d bytes" % (head[1], size, hashlib.sha1(body).hexdigest(), c["type"], len(data))
        shutil.rmtree(root, ignore_errors=True)
        return fails

    def finding_class(self, case, reason, reply):
        if case.get("entry") == "set_stale" and any(case["chunks"][1:]) and reply is not None and not reply.get("panic") \
                and ("differs from git hash-object" in reason):
            return "memoryobject-stale-hash"
        if case.get("entry", "").startswith("set") and reply is not None and reply.get("panic"):
            try:
                bad_size = int(case["size"]) < 0
            except ValueError:
                bad_size = False
            if bad_size:
                return "setencodedobject-header-error-panic"
        return None


def deflate_variants(rng, raw):
    lvl = rng.choice([0, 1, 6, 9])
    return zlib.compress(raw, lvl)


class Read(Suite):
    """loose objects written by git (and hand-made ones) read through go-git"""
    name = "read"
    go_cmd = "c01"
    coq_imports = "From GoGit Require Import Spec.SHA Model.ObjFile Spec.LooseGit."
    quick_n = 120
    thorough_n = 1000
    coq_chunk = 60

    def gen(self, rng, n, tier):
        cases = []
        ngit = (n * 5) // 8
        tmp = tempfile.mkdtemp(prefix="verif-C01-gen-")
        try:
            items = []
            for i in range(ngit):
                fmt = rng.choice(["sha1", "sha256"])
                ty = rng.choice(GIT_TYPES)
                cb = "large" if i < (1 if tier == "quick" else 6) else pick_weighted(rng, CONTENT_BUCKETS)
                lvl = rng.choice(["default", "0", "1", "9"])
                items.append((fmt, ty, lvl, cb, content(rng, cb)))
            groups = {}
            for k, it in enumerate(items):
                groups.setdefault(it[:3], []).append(k)
            oids = {}
            for (fmt, ty, lvl), ks in sorted(groups.items()):
                repo = os.path.join(tmp, "%s-%s" % (fmt, lvl))
                if not os.path.isdir(repo):
                    git_init(repo, fmt)
                paths = []
                for k in ks:
                    p = os.path.join(tmp, "in-%d" % k)
                    with open(p, "wb") as f:
                        f.write(items[k][4])
                    paths.append(p)
                cfg = [] if lvl == "default" else ["-c", "core.looseCompression=" + lvl]
                out = git(cfg + ["hash-object", "-w", "-t", ty, "--literally", "--stdin-paths"], repo, inp="".join(p + "\n" for p in paths).encode()).stdout.decode().split()
                for k, h in zip(ks, out):
                    oids[k] = (h, repo)
            for k, (fmt, ty, lvl, cb, data) in enumerate(items):
                h, repo = oids[k]
                with open(os.path.join(repo, "objects", h[:2], h[2:]), "rb") as f:
                    loose = f.read()
                cases.append({"bucket": "git/%s/z%s" % (cb, lvl), "kind": "read", "fmt": fmt, "oid": h, "loose": loose.hex(),
                              "type": ty, "content_len": len(data), "content_sha1": hashlib.sha1(data).hexdigest(), "by": "git"})
        finally:
            shutil.rmtree(tmp, ignore_errors=True)
        if tier == "thorough":
            # small-scope exhaustion of the size field: every text of length <= 3 over the bytes the two parsers treat specially
            from vf.gen import all_strings
            for sz in all_strings(b"019+-_ ", 3):
                raw = b"blob " + sz + b"\0ab"
                cases.append({"bucket": "hand/enum-size", "kind": "read", "fmt": "sha1", "oid": hashlib.sha1(raw).hexdigest(),
                              "loose": zlib.compress(raw, 1).hex(), "by": "hand"})
            for ty in all_strings(b"blo t", 4):
                raw = ty + b" 2\0ab"
                cases.append({"bucket": "hand/enum-type", "kind": "read", "fmt": "sha1", "oid": hashlib.sha1(raw).hexdigest(),
                              "loose": zlib.compress(raw, 1).hex(), "by": "hand"})
        # hand-made headers: what the reader accepts / refuses (model comparison, and S vs git in extra)
        for _ in range(n - ngit):
            raw, b = malformed(rng)
            fmt = rng.choice(["sha1", "sha1", "sha256"])
            h = hashlib.new(fmt, raw).hexdigest()
            cases.append({"bucket": "hand/" + b, "kind": "read", "fmt": fmt, "oid": h, "loose": deflate_variants(rng, raw).hex(), "by": "hand"})
        return cases

    def model_expr(self, c):
        try:
            raw = zlib.decompress(bytes.fromhex(c["loose"]))
        except zlib.error:
            return None
        if len(raw) > MODEL_MAX:
            return None
        return 'c01_run_read "%s" "%s"' % (c["fmt"], raw.hex())

    def nontrivial(self, c):
        return True

    def key(self, c):
        return c["fmt"] + c["loose"]

    def show(self, c):
        d = dict(c)
        if len(d.get("loose", "")) > 600:
            d["loose"] = "<%d deflated bytes, sha1 %s>" % (len(d["loose"]) // 2, hashlib.sha1(bytes.fromhex(d["loose"])).hexdigest())
        return d

    def oracle(self, ctx, cases, impl, model):
        """every loose object git wrote is read by go-git with the same type, size, bytes and ID"""
        fails = {}
        for c in cases:
            if c.get("kind") != "read" or c.get("by") != "git":
                continue
            i = c["id"]
            r = impl.get(i)
            if r is None:
                fails[i] = "no reply from the implementation"
                continue
            ex = r.get("extra") or {}
            if "st_err" in ex or "st_type" not in ex:
                fails[i] = "storage could not read the object git wrote: %s" % ex.get("st_err", "?")
                continue
            body = bytes.fromhex(ex["st_content"])
            if ex["st_type"] != c["type"] or int(ex["st_size"]) != c["content_len"] or len(body) != c["content_len"] \
                    or hashlib.sha1(body).hexdigest() != c["content_sha1"]:
                fails[i] = "go-git reads %s size %s (%d bytes), git wrote %s %d bytes" % (ex["st_type"], ex["st_size"], len(body), c["type"], c["content_len"])
                continue
            if ex["st_hash"] != c["oid"]:
                fails[i] = "go-git names the object %s, git %s" % (ex["st_hash"], c["oid"])
                continue
            # and objfile.Reader by itself agrees
            out = r["out"].split()
            want_t = "x" + c["type"].encode().hex()
            if len(out) < 7 or out[1] != "ok" or out[2] != want_t or out[3] != str(c["content_len"]) or out[5] != "x" + c["oid"]:
                fails[i] = "objfile.Reader: %s" % r["out"][:160]
        return fails

    def extra(self, ctx, cases, impl, model):
        """C-git: Spec/LooseGit.git_parse vs the git binary on the hand-made headers (sha1 repository)"""
        hand = [c for c in cases if c.get("by") == "hand" and c["fmt"] == "sha1"][:(24 if ctx.tier == "quick" else 400)]
        if not hand:
            return {}
        repo = os.path.join(ctx.tmp, "c01r")
        git_init(repo, "sha1")
        exprs = []
        for c in hand:
            raw = zlib.decompress(bytes.fromhex(c["loose"]))
            d = os.path.join(repo, "objects", c["oid"][:2])
            os.makedirs(d, exist_ok=True)
            with open(os.path.join(d, c["oid"][2:]), "wb") as f:
                f.write(bytes.fromhex(c["loose"]))
            exprs.append('c01_git_parse "%s"' % raw[:80].hex())
        outs = ctx.coq_eval(self.coq_imports, exprs)
        bad = 0
        for c, o in zip(hand, outs):
            # one process per object: an invalid type is fatal for git, which would end a shared batch
            t = git(["cat-file", "--batch-check"], repo, inp=(c["oid"] + "\n").encode(), check=False)
            w = t.stdout.decode("utf-8", "replace").split()
            if t.returncode == 0 and len(w) == 3 and w[0] == c["oid"]:
                g = "( ok x%s %s )" % (w[1].encode().hex(), w[2])
            else:
                g = "( err reject )"
            if o != g:
                bad += 1
                ctx.notes.append("spec_mismatch git_parse vs git on %s: %s vs %s" % (zlib.decompress(bytes.fromhex(c["loose"]))[:40].hex(), o, g))
        shutil.rmtree(repo, ignore_errors=True)
        return {"spec_vs_git_cases": len(hand), "spec_mismatches": bad}


def malformed(rng):
    """(inflated bytes, bucket): header anomalies around every rule of both readers"""
    body = bytes(rng.randrange(256) for _ in range(rng.randrange(0, 10)))
    ty = rng.choice([b"blob", b"tree", b"commit", b"tag"])
    n = len(body)
    b = pick_weighted(rng, [(2, "ok"), (2, "size-syntax"), (2, "type"), (2, "budget"), (2, "trunc"), (2, "size-mismatch"), (2, "range"), (1, "seps")])
    if b == "ok":
        return ty + b" " + str(n).encode() + b"\0" + body, b
    if b == "size-syntax":
        s = rng.choice([b"+%d", b"-%d", b"0%d", b"00%d", b"%d_", b"1_0", b" %d", b"%d ", b"", b"+", b"-", b"0x%d", b"%da", b"\t%d", b"%d\n", b"-0", b"+0", b"00"])
        s = s % n if b"%d" in s else s
        return ty + b" " + s + b"\0" + body, b
    if b == "type":
        t = rng.choice([b"ofs-delta", b"ref-delta", b"any", b"unknown", b"", b"Blob", b"blob\0", b"blo", b"blobb", b"tree ", b"commit\n"])
        return t + b" " + str(n).encode() + b"\0" + body, b
    if b == "budget":
        # total header length around maxHeaderLen = 32
        want = rng.choice([30, 31, 32, 33, 34, 40])
        pad = want - len(ty) - 2
        k = rng.randrange(3)
        if k == 0:
            s = b"0" * max(pad - len(str(n)), 0) + str(n).encode()
            return ty + b" " + s + b"\0" + body, b
        if k == 1:
            s = rng.choice([b"9", b"1"]) * max(pad, 1)
            return ty + b" " + s + b"\0" + body, b
        t = b"x" * max(want - 3, 1)
        return t + b" 1\0" + body, b
    if b == "trunc":
        full = ty + b" " + str(n).encode() + b"\0" + body
        return full[:rng.randrange(0, len(ty) + 4)], b
    if b == "size-mismatch":
        return ty + b" " + str(max(0, n + rng.choice([-3, -1, 1, 5, 1000]))).encode() + b"\0" + body, b
    if b == "range":
        v = rng.choice([2**63 - 1, 2**63, 2**63 + 1, 2**64 - 1, 2**64, 10**19, 10**20, 10**25])
        sg = rng.choice([b"", b"", b"-", b"+"])
        return ty + b" " + sg + str(v).encode() + b"\0" + body, b
    s = rng.choice([b"%s  %d\0", b"%s\t%d\0", b"%s %d\0\0", b" %s %d\0", b"%s %d", b"%s\0%d ", b"%s %d \0"])
    return s % (ty, n) + body, b


SUITES = [Write(), Read()]
