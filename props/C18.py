"""C18 Objects are readable immediately after a successful write (DESIGN.md §4.C18)."""
import itertools
from vf.core import Suite, coq_list, coq_bool
from vf.gen import pick_weighted

ID = "C18"
THEOREMS = ["C18_refines_disk", "C18_visible_after_close", "C18_visible_after_pack_close", "C18_gate_open",
            "C18_nonexclusive", "C18_unrepaired_refuted", "C18_unrepaired_pack_refuted"]
MODEL_FILES = ["ObjVis.v"]
MODELLED = ("storage/filesystem/dotgit/dotgit.go: NewObject, NewObjectPack, cleanObjectList/genObjectList/hasObject, "
            "forgetPackList/genPackList/hasPack (NewObjectPack forgets the list and keeps the handles since the C23 repair), ObjectPacks, Objects, ObjectsWithPrefix, Object/ObjectStat gates, packHandle catalog, "
            "ObjectDelete; dotgit/writers.go: ObjectWriter.Close/save, PackWriter.Close/save (incl. nothing-written and "
            "already-present packs) and Notify; storage/filesystem/object.go: requireIndex/populateIndex, Reindex, packfileWriter Notify, "
            "HasEncodedObject, EncodedObjectSize, EncodedObject, IterEncodedObjects, HashesWithPrefix routing (Model/ObjVis.v, sequential "
            "state machine over abstract object numbers; a pack = the set of its objects). Not modelled: object cache and the MRU pack hint "
            "(covered by C18_gate_open: every indexed pack passes the hasPack gate, so the routing choice cannot matter), zlib/objfile/packfile "
            "codecs, descriptor pooling, alternates, concurrency (C23), I/O errors of Close")
TRUSTED = [
    "C-impl: harness/cmd/c18 drives filesystem.ObjectStorage (RawObjectWriter, SetEncodedObject, PackfileWriter, HasEncodedObject, "
    "EncodedObjectSize, EncodedObject+Reader, IterEncodedObjects, HashesWithPrefix, ObjectPacks, DeleteLooseObject, Reindex) on osfs and memfs, "
    "ExclusiveAccess on/off, lazy/in-memory idx, and compares every step with Model/ObjVis.run",
    "direct oracle: python bookkeeping of the writes that returned nil (abstract disk) vs every lookup answer of the implementation",
]
ASSUMPTIONS = ["one goroutine drives the storage (interleavings of writers and reads, not data races: C23)",
               "no other process modifies the repository while the storage is open; Close of a writer does not fail with an I/O error",
               "the descriptor of a catalogued pack handle stays usable (pool capacity not exceeded within a case)"]
RULE = ("case = (ExclusiveAccess, fs, idx kind, initial loose set, initial packs, history over 6 objects and up to 4 simultaneously open object / pack writers); "
        "buckets: witness shapes (reader between open and close of an object / pack writer), ALL interleavings of two writers x reader placements, sampled interleavings of three, writers never closed, RawObjectWriter calls whose WriteHeader fails, random histories, enumerated short "
        "interleavings, duplicate / empty packs, slot misuse; non-trivial = some writer is closed after a lookup ran while it was open; "
        "distinct by content")

FIXED = True          # the repair 'fix: dotgit: drop cached object/pack lists when a writer closes' is in the tree
NOBJ = 6
TYPES = ["", "blob", "tree", "commit"]
COQT = {"": "TAny", "blob": "TBlob", "tree": "TTree", "commit": "TCommit"}
TMASK = {"": 63, "blob": 15, "tree": 48, "commit": 0}


def op_coq(s):
    o = s["op"]
    if o == "newobj":
        return "NewObj %d %d%%N" % (s["w"], s["k"])
    if o == "closeobj":
        return "CloseObj %d" % s["w"]
    if o == "failobj":
        return "FailObj"
    if o == "set":
        return "SetObj %d%%N" % s["k"]
    if o == "newpack":
        return "NewPack %d %d%%N" % (s["w"], s["p"])
    if o == "closepack":
        return "ClosePack %d" % s["w"]
    if o == "has":
        return "Has %d%%N" % s["k"]
    if o == "size":
        return "Size %d%%N" % s["k"]
    if o == "get":
        return "Get %d%%N %s" % (s["k"], COQT[s.get("t", "")])
    if o == "iter":
        return "Iter %s" % COQT[s.get("t", "")]
    if o == "prefix":
        return "Prefix %d%%N %d%%N" % (s["k"], s["n"])
    if o == "packs":
        return "Packs"
    if o == "del":
        return "Del %d%%N" % s["k"]
    if o == "reindex":
        return "Reindex"
    raise ValueError(o)


def parse_out(text):
    """'( a ( b c ) )' -> nested python lists of tokens"""
    toks = text.split()
    pos = 0

    def rd():
        nonlocal pos
        t = toks[pos]
        pos += 1
        if t == "(":
            l = []
            while toks[pos] != ")":
                l.append(rd())
            pos += 1
            return l
        return t
    return rd()


def rmask(rng, p=0.4):
    m = 0
    for k in range(NOBJ):
        if rng.random() < p:
            m |= 1 << k
    return m


def lookup(rng, k=None):
    k = rng.randrange(NOBJ) if k is None else k
    return pick_weighted(rng, [
        (3, {"op": "has", "k": k}), (2, {"op": "size", "k": k}),
        (3, {"op": "get", "k": k, "t": rng.choice(["", "", "blob", "tree"])}),
        (2, {"op": "iter", "t": rng.choice(["", "", "blob", "tree", "commit"])}),
        (2, {"op": "prefix", "k": k, "n": rng.choice([0, 1, 2, 4, 19, 20])}),
        (2, {"op": "packs"}),
    ])


def all_lookups(k):
    return [{"op": "has", "k": k}, {"op": "size", "k": k}, {"op": "get", "k": k, "t": ""}, {"op": "iter", "t": ""},
            {"op": "prefix", "k": k, "n": 20}, {"op": "prefix", "k": k, "n": 0}, {"op": "packs"}]


def random_history(rng, n):
    """writers of 4 slots opened and closed at random (several open at once, some never closed, some abandoned by a
    failing WriteHeader); right after a close, usually a lookup of what that writer wrote"""
    steps = []
    ow, pw = {}, {}
    while len(steps) < n:
        r = rng.random()
        if r < 0.16:
            w = rng.randrange(4)
            k = rng.randrange(NOBJ)
            steps.append({"op": "newobj", "w": w, "k": k})
            ow.setdefault(w, k)
        elif r < 0.30:
            w = rng.choice(sorted(ow)) if ow and rng.random() < 0.9 else rng.randrange(4)
            steps.append({"op": "closeobj", "w": w})
            k = ow.pop(w, None)
            if k is not None and rng.random() < 0.75:
                steps.append(rng.choice(all_lookups(k)[:6]))
        elif r < 0.34:
            steps.append({"op": "failobj", "k": rng.randrange(NOBJ), "badtype": rng.random() < 0.3})
        elif r < 0.39:
            steps.append({"op": "set", "k": rng.randrange(NOBJ)})
        elif r < 0.50:
            w = rng.randrange(4)
            p = rmask(rng) if rng.random() < 0.9 else 0
            steps.append({"op": "newpack", "w": w, "p": p})
            pw.setdefault(w, p)
        elif r < 0.62:
            w = rng.choice(sorted(pw)) if pw and rng.random() < 0.9 else rng.randrange(4)
            steps.append({"op": "closepack", "w": w})
            p = pw.pop(w, None)
            if p and rng.random() < 0.75:
                k = rng.choice([k for k in range(NOBJ) if p >> k & 1])
                steps.append(rng.choice(all_lookups(k)))
        elif r < 0.66:
            steps.append({"op": "del", "k": rng.randrange(NOBJ)})
        elif r < 0.69:
            steps.append({"op": "reindex"})
        else:
            steps.append(lookup(rng))
    return steps


READERS = [{"op": "has", "k": 5}, {"op": "iter", "t": ""}, {"op": "prefix", "k": 0, "n": 2}, {"op": "size", "k": 0},
           {"op": "packs"}, {"op": "get", "k": 0, "t": ""}, {"op": "reindex"}]


def orderings(m):
    """all interleavings of the open/close events of m writers (open_i before close_i)"""
    def rec(opened, closed):
        if len(closed) == m:
            yield []
            return
        if len(opened) < m:
            i = len(opened)                      # writers are opened in index order (symmetry)
            for rest in rec(opened + [i], closed):
                yield [("open", i)] + rest
        for i in opened:
            if i not in closed:
                for rest in rec(opened, closed + [i]):
                    yield [("close", i)] + rest
    return list(rec([], []))


def writers_history(kinds, order, gaps, reader, abandon=None, fail_at=None):
    """kinds[i] in 'op' ('o'bject writer of object i+1 / 'p'ack writer of {i+1, 5}); a reader op is put into the gaps
    selected by the bit mask; after every close, every lookup of what was written — while the others are still open.
    abandon = a writer that is opened and never closed; fail_at = position of a failing RawObjectWriter"""
    steps = []
    for pos, (ev, i) in enumerate(order):
        if fail_at == pos:
            steps.append({"op": "failobj", "k": 0, "badtype": pos % 2 == 1})
        if gaps >> pos & 1:
            steps.append(dict(reader))
        k = i + 1
        if ev == "open":
            steps.append({"op": "newobj", "w": i, "k": k} if kinds[i] == "o" else {"op": "newpack", "w": i, "p": (1 << k) | 32})
        elif i != abandon:
            steps.append({"op": "closeobj", "w": i} if kinds[i] == "o" else {"op": "closepack", "w": i})
            steps += all_lookups(k)[:6]
    if gaps >> len(order) & 1:
        steps.append(dict(reader))
    for i in range(len(kinds)):
        if i != abandon:
            steps.append({"op": "has", "k": i + 1})
    return steps


def conf(rng):
    return {"excl": rng.random() < 0.65, "fs": rng.choice(["os", "mem"]), "memidx": rng.random() < 0.5}


ENUM_ALPHA = [{"op": "newobj", "w": 0, "k": 1}, {"op": "closeobj", "w": 0}, {"op": "newpack", "w": 0, "p": 6},
              {"op": "closepack", "w": 0}, {"op": "has", "k": 1}, {"op": "get", "k": 2, "t": ""}, {"op": "iter", "t": ""},
              {"op": "packs"}, {"op": "del", "k": 1}, {"op": "reindex"}]


class Main(Suite):
    name = "main"
    go_cmd = "c18"
    coq_imports = "From GoGit Require Import Model.ObjVis."
    quick_n = 200
    thorough_n = 4000

    def gen(self, rng, n, tier):
        cases = []

        def add(bucket, cf, loose, packs, steps):
            cases.append(dict(cf, bucket=bucket, loose=loose, packs=packs, steps=steps))

        # witness shapes, every configuration
        for excl in (True, False):
            for fs in ("os", "mem"):
                cf = {"excl": excl, "fs": fs, "memidx": fs == "mem"}
                for rd in ({"op": "has", "k": 2}, {"op": "iter", "t": ""}, {"op": "prefix", "k": 1, "n": 4}, {"op": "size", "k": 0}):
                    add("witness-loose", cf, 1, [], [{"op": "newobj", "w": 0, "k": 1}, rd, {"op": "closeobj", "w": 0}] + all_lookups(1))
                for rd in ({"op": "packs"}, {"op": "iter", "t": ""}, {"op": "get", "k": 0, "t": ""}, {"op": "reindex"}):
                    add("witness-pack", cf, 0, [9], [{"op": "newpack", "w": 0, "p": 22}, rd, {"op": "closepack", "w": 0}] + all_lookups(1) + all_lookups(4)[:3])
                add("two-writers", cf, 0, [], [{"op": "newobj", "w": 0, "k": 1}, {"op": "newobj", "w": 1, "k": 2}, {"op": "closeobj", "w": 0},
                                             {"op": "has", "k": 1}, {"op": "closeobj", "w": 1}] + all_lookups(2))
                add("dup-pack", cf, 2, [6], [{"op": "newpack", "w": 0, "p": 6}, {"op": "packs"}, {"op": "closepack", "w": 0}, {"op": "packs"},
                                           {"op": "newpack", "w": 1, "p": 0}, {"op": "iter", "t": ""}, {"op": "closepack", "w": 1}] + all_lookups(2))
                add("slots", cf, 0, [], [{"op": "closeobj", "w": 0}, {"op": "closepack", "w": 1}, {"op": "newobj", "w": 0, "k": 3}, {"op": "newobj", "w": 0, "k": 4},
                                        {"op": "newpack", "w": 2, "p": 3}, {"op": "newpack", "w": 2, "p": 5}, {"op": "closeobj", "w": 0}, {"op": "closepack", "w": 2}] + all_lookups(3))
        # several writers open at once: every interleaving of 2 writers (objects / packs / mixed) x every placement of
        # a reader in the gaps; 3 writers, abandoned writers and failing RawObjectWriter calls sampled (thorough: more)
        ex = {"excl": True, "fs": "mem", "memidx": False}
        for kinds in ("oo", "pp", "op", "po"):
            for order in orderings(2):
                for gaps in range(1 << (len(order) + 1)):
                    rd = READERS[(gaps + len(cases)) % len(READERS)]
                    add("writers-2", ex if gaps % 4 else {"excl": True, "fs": "os", "memidx": True}, 0, [], writers_history(kinds, order, gaps, rd))
        ord3 = orderings(3)
        for _ in range(60 if tier == "quick" else 1500):
            kinds = "".join(rng.choice("oop") for _ in range(3))
            order = rng.choice(ord3)
            add("writers-3", conf(rng) if rng.random() < 0.3 else ex, rmask(rng, 0.2), [], writers_history(
                kinds, order, rng.randrange(1 << (len(order) + 1)), rng.choice(READERS),
                abandon=rng.choice([None, None, 0, 1, 2]), fail_at=rng.choice([None, None, 0, 1, 2, 3])))
        for kinds in ("oo", "op", "ooo"):
            m = len(kinds)
            for order in orderings(m)[:: (1 if m == 2 else 9)]:
                for ab in range(m):
                    add("abandoned", ex, 0, [], writers_history(kinds, order, (1 << (len(order) + 1)) - 1, READERS[(ab + len(cases)) % 4], abandon=ab))
                add("failed-header", ex, 0, [], writers_history(kinds, order, 0b10101, READERS[len(cases) % 4], fail_at=0))
                add("failed-header", {"excl": False, "fs": "os", "memidx": False}, 0, [], writers_history(kinds, order, 0b01010, READERS[len(cases) % 4], fail_at=1))
        # enumerated short interleavings (exclusive mode, where the caches live)
        k = 4 if tier == "quick" else 5
        seqs = list(itertools.product(range(len(ENUM_ALPHA)), repeat=k))
        if tier == "quick":
            seqs = rng.sample(seqs, min(len(seqs), max(60, n // 3)))
        elif len(seqs) > 3 * n:
            seqs = rng.sample(seqs, 3 * n)
        for sq in seqs:
            steps = [dict(ENUM_ALPHA[i]) for i in sq] + [{"op": "closeobj", "w": 0}, {"op": "closepack", "w": 0}] + all_lookups(1)[:5] + [{"op": "get", "k": 2, "t": ""}]
            add("enum", {"excl": True, "fs": "mem", "memidx": False}, 0, [], steps)
        # random histories
        fixed = len(cases)
        while len(cases) < fixed + n:
            cf = conf(rng)
            packs = [m for m in (rmask(rng) for _ in range(rng.randrange(3))) if m]
            add("random", cf, rmask(rng, 0.3), sorted(set(packs)), random_history(rng, rng.randrange(4, 22)))
        return cases

    def model_expr(self, c):
        return "c18_run %s %s %d%%N %s %s" % (coq_bool(c["excl"]), coq_bool(FIXED), c["loose"],
                                            coq_list(["%d%%N" % p for p in c["packs"]]),
                                            coq_list([op_coq(s) for s in c["steps"]]))

    def nontrivial(self, c):
        open_o, open_p, seen = set(), set(), False
        for s in c["steps"]:
            o = s["op"]
            if o == "newobj":
                open_o.add(s["w"])
            elif o == "newpack":
                open_p.add(s["w"])
            elif o in ("has", "size", "get", "iter", "prefix", "packs", "reindex") and (open_o or open_p):
                seen = True
            elif o in ("closeobj", "closepack") and seen and (s["w"] in open_o or s["w"] in open_p):
                return True
        return False

    def oracle(self, ctx, cases, impl, model):
        """the property on the implementation alone: every object whose write returned nil is found by every
        later lookup (until its loose file is deleted and no pack holds it)"""
        fails = {}
        for c in cases:
            r = impl.get(c["id"])
            if r is None or r.get("panic"):
                continue
            try:
                outs = parse_out(r["out"])
            except Exception:
                fails[c["id"]] = "unparsable reply"
                continue
            if len(outs) != len(c["steps"]):
                fails[c["id"]] = "reply has %d answers for %d steps" % (len(outs), len(c["steps"]))
                continue
            loose, packs = c["loose"], set(c["packs"])
            ow, pw = {}, {}
            for i, (s, o) in enumerate(zip(c["steps"], outs)):
                op = s["op"]
                vis = loose
                for p in packs:
                    vis |= p
                why = None
                if op == "newobj" and o == "ok":
                    ow[s["w"]] = s["k"]
                elif op == "closeobj" and s["w"] in ow:
                    k = ow.pop(s["w"])
                    if o == "ok":
                        loose |= 1 << k
                elif op == "set" and o == "ok":
                    loose |= 1 << s["k"]
                elif op == "newpack" and o == "ok":
                    pw[s["w"]] = s["p"]
                elif op == "closepack" and s["w"] in pw:
                    p = pw.pop(s["w"])
                    if o == "ok" and p:
                        packs.add(p)
                elif op == "del" and o == "ok":
                    loose &= ~(1 << s["k"])
                elif op == "has" and vis >> s["k"] & 1 and o != "true":
                    why = "HasEncodedObject(%d) = %s" % (s["k"], o)
                elif op == "size" and vis >> s["k"] & 1 and o != "ok":
                    why = "EncodedObjectSize(%d) = %s" % (s["k"], o)
                elif op == "get" and vis >> s["k"] & 1 and TMASK[s.get("t", "")] >> s["k"] & 1 and o != "ok":
                    why = "EncodedObject(%s,%d) = %s" % (s.get("t", "") or "any", s["k"], o)
                elif op == "iter":
                    want = vis & TMASK[s.get("t", "")]
                    if not (isinstance(o, list) and o[0] == "ok" and int(o[1]) & want == want):
                        why = "IterEncodedObjects(%s) = %s misses written objects (want mask %d)" % (s.get("t", "") or "any", o, want)
                elif op == "prefix" and vis >> s["k"] & 1 and (isinstance(o, list) or int(o) < 1):
                    why = "HashesWithPrefix(%d bytes of object %d) lacks it: %s" % (s["n"], s["k"], o)
                elif op == "packs":
                    if not (isinstance(o, list) and o[0] == "ok" and packs <= set(int(x) for x in o[1])):
                        why = "ObjectPacks = %s lacks a written pack of %s" % (o, sorted(packs))
                if why:
                    fails[c["id"]] = "step %d: %s after its write returned nil (excl=%s)" % (i, why, c["excl"])
                    break
        return fails

    def finding_class(self, case, reason, reply):
        return None


SUITES = [Main()]
