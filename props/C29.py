"""C29 A refused porcelain operation changes nothing (DESIGN.md §4.C29)."""
from props import porcelain_lib as P
from props import c29ops_lib as _O
from props.C25 import MODELLED as _M

ID = "C29"
THEOREMS = ["C29_reset_atomic", "C29_checkout_atomic", "C29_checkout_no_late_refusal", "C29_step_atomic"]
MODEL_FILES = ["Porcelain.v", "PorcelainOps.v"]
THEOREMS = THEOREMS + list(_O.THEOREMS_OPS)
MODELLED = _M + "; Checkout is modelled in the order of the repaired code (fix: decide every refusal of Checkout before the branch is created and HEAD is moved); C29 covers the error exits of Checkout and Reset (Add and Commit refusals are exercised with the snapshot oracle but not modelled; Restore/Merge/Pull and injected filesystem faults are not covered; deleted blobs / nested trees are oracle-only)"
TRUSTED = [
    "C-impl: harness/cmd/porcelain vs Model/Porcelain.porcelain_run (result class + snapshot after every op)",
    "direct oracle: for every checkout / reset that returns an error, the snapshot taken before the call (HEAD, every ref, raw bytes of "
    ".git/HEAD, .git/packed-refs and .git/refs/**, decoded index entries, every worktree file with kind and bytes) must equal the one taken after",
]
ASSUMPTIONS = ["object ids are injective on the blobs of a case", "df_free cases only are given to the model; the oracle runs on all"]
RULE = ("porcelain recipes (see C25) with buckets aimed at refusals: the missing-object family in both tiers (HEAD's commit missing, directly or "
        "through its branch; HEAD symbolic to a missing or non-branch ref; target hash naming a tree or a blob; target or HEAD commit whose "
        "root tree is deleted; a deleted blob / nested tree of the target; Add of a missing path, Commit on a clean tree or on a dangling HEAD) "
        "crossed with Checkout by branch / by hash / with Create (with and without an explicit hash) x Force / Keep / neither and Reset in all "
        "five modes; unstaged changes under non-forced checkout / merge reset, local changes "
        "under keep reset, option validation (branch+hash, create without name, existing branch), unknown reference, missing object, "
        "dangling / unborn HEAD; non-trivial = some porcelain op is refused; distinct by content")


def snap_diff(pre, post):
    d = []
    for k in ("head", "refs", "raw", "index", "wt"):
        if pre.get(k) != post.get(k):
            d.append(k)
    return d


def df_blocked(c, op, pre):
    """a worktree path is a directory where the target has a file, or a file where the target has a directory"""
    t = P.tree(c, P.target_commit(c, op, pre)) or {}
    for p in P.fmap(pre["wt"]):
        for q in t:
            if p.startswith(q + "/") or q.startswith(p + "/"):
                return True
    return False


class Main(P.PorcelainSuite):
    name = "main"
    missing_kinds = None
    quick_n = 150
    thorough_n = 1000
    buckets = [(7, "missing"), (4, "unstaged"), (4, "errors"), (3, "keep"), (2, "random"), (1, "staged"), (1, "df")]
    weights = {"force": 1, "plain": 6, "ckeep": 1, "hard": 1, "merge": 4, "keep": 3, "mixed": 1, "soft": 1}

    def gen(self, rng, n, tier):
        cs = super().gen(rng, n, tier)
        for c in cs:
            c["git"] = "none"
        return cs

    def nontrivial(self, c):
        return any(o["op"] in ("checkout", "reset", "add", "commit") for o in c["ops"]) and bool(c["commits"])

    def oracle(self, ctx, cases, impl, model):
        fails = {}
        self.refusals = 0
        for c in cases:
            r = impl.get(c["id"])
            if r is None or not (r.get("extra") or {}).get("steps"):
                fails[c["id"]] = "other|no reply from the implementation"
                continue
            for k, (op, pre, st) in enumerate(P.steps_of(c, r)):
                if op["op"] not in ("checkout", "reset", "add", "commit") or st["res"] in ("ok", "init"):
                    continue
                self.refusals += 1
                d = snap_diff(pre, st["snap"])
                if not d:
                    continue
                cls = "other"
                if st["res"] == "other" and op["op"] in ("checkout", "reset") and df_blocked(c, op, pre):
                    cls = "partial-failure-on-df-conflict"
                elif c.get("noobject") and op["op"] in ("checkout", "reset") and st["res"] in ("other", "object_not_found"):
                    cls = "partial-failure-on-missing-blob-or-subtree"
                fails[c["id"]] = "%s|op %d %s refused (%s) but %s changed: head %s -> %s, refs %s -> %s" % (
                    cls, k, op, st["res"], d, pre["head"], st["snap"]["head"], pre["refs"], st["snap"]["refs"])
                break
        return fails

    def finding_class(self, case, reason, reply):
        cls = reason.split("|", 1)[0]
        return None if cls == "other" else cls

    def extra(self, ctx, cases, impl, model):
        return {"refused_ops": getattr(self, "refusals", 0)}


SUITES = [Main()] + list(_O.SUITES_OPS)

try:
    MODELLED = MODELLED + "; " + _O.MODELLED_OPS
    TRUSTED = list(globals().get("TRUSTED", [])) + list(_O.TRUSTED_OPS)
except Exception:
    pass
