"""C29 A refused porcelain operation changes nothing (DESIGN.md §4.C29)."""
from props import porcelain_lib as P
from props.C25 import MODELLED as _M

ID = "C29"
THEOREMS = ["C29_reset_atomic", "C29_checkout_atomic", "C29_checkout_no_late_refusal", "C29_step_atomic"]
MODEL_FILES = ["Porcelain.v"]
MODELLED = _M + "; Checkout is modelled in the order of the repaired code (fix: decide every refusal of Checkout before the branch is created and HEAD is moved); C29 covers the error exits of Checkout and Reset (Restore/Add/Commit/Merge/Pull and injected filesystem faults are not modelled)"
TRUSTED = [
    "C-impl: harness/cmd/porcelain vs Model/Porcelain.porcelain_run (result class + snapshot after every op)",
    "direct oracle: for every checkout / reset that returns an error, the snapshot taken before the call (HEAD, every ref, raw bytes of "
    ".git/HEAD, .git/packed-refs and .git/refs/**, decoded index entries, every worktree file with kind and bytes) must equal the one taken after",
]
ASSUMPTIONS = ["object ids are injective on the blobs of a case", "df_free cases only are given to the model; the oracle runs on all"]
RULE = ("porcelain recipes (see C25) with buckets aimed at refusals: unstaged changes under non-forced checkout / merge reset, local changes "
        "under keep reset, option validation (branch+hash, create without name, existing branch), unknown reference, missing object, "
        "dangling / unborn HEAD; non-trivial = some porcelain op is refused; distinct by content")


def snap_diff(pre, post):
    d = []
    for k in ("head", "refs", "raw", "index", "wt"):
        if pre.get(k) != post.get(k):
            d.append(k)
    return d


def df_blocked(c, op, pre):
    """a worktree path is a directory where the target has a file, or a file where the target has a directory"""
    t = P.tree(c, P.target_commit(c, op, pre)) or {}
    for p in P.fmap(pre["wt"]):
        for q in t:
            if p.startswith(q + "/") or q.startswith(p + "/"):
                return True
    return False


class Main(P.PorcelainSuite):
    name = "main"
    quick_n = 150
    thorough_n = 1000
    buckets = [(5, "unstaged"), (4, "errors"), (3, "keep"), (2, "random"), (1, "staged"), (1, "df")]
    weights = {"force": 1, "plain": 6, "ckeep": 1, "hard": 1, "merge": 4, "keep": 3, "mixed": 1, "soft": 1}

    def gen(self, rng, n, tier):
        cs = super().gen(rng, n, tier)
        for c in cs:
            c["git"] = "none"
        return cs

    def nontrivial(self, c):
        return super().nontrivial(c)

    def oracle(self, ctx, cases, impl, model):
        fails = {}
        self.refusals = 0
        for c in cases:
            r = impl.get(c["id"])
            if r is None or not (r.get("extra") or {}).get("steps"):
                fails[c["id"]] = "other|no reply from the implementation"
                continue
            for k, (op, pre, st) in enumerate(P.steps_of(c, r)):
                if op["op"] not in ("checkout", "reset") or st["res"] in ("ok", "init"):
                    continue
                self.refusals += 1
                d = snap_diff(pre, st["snap"])
                if not d:
                    continue
                cls = "other"
                if st["res"] == "other" and df_blocked(c, op, pre):
                    cls = "partial-failure-on-df-conflict"
                fails[c["id"]] = "%s|op %d %s refused (%s) but %s changed: head %s -> %s, refs %s -> %s" % (
                    cls, k, op, st["res"], d, pre["head"], st["snap"]["head"], pre["refs"], st["snap"]["refs"])
                break
        return fails

    def finding_class(self, case, reason, reply):
        cls = reason.split("|", 1)[0]
        return None if cls == "other" else cls

    def extra(self, ctx, cases, impl, model):
        return {"refused_ops": getattr(self, "refusals", 0)}


SUITES = [Main()]
