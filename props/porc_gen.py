"""Shared generator of porcelain states (flattened HEAD / index / worktree maps) for C27, C28.

A state is three dicts path -> (mode, content[, flag]) plus configuration; `recipe(state)` gives the JSON
understood by harness/porc, the per-property modules derive their Coq model inputs from the same dicts."""
import fnmatch

T0 = 1600000000
CONTENTS = [b"1\n", b"2\n", b"", b"11\n", b"22\n", b"a longer line of text\n", b"x", b"33\n"]
PATHS = ["a", "ab", "a/b", "a/c", "b", "d/e", "d/f", "d/g/h", "d.x", "d-x", "l", "x.o", "keep.o", "d/y.o", "build/y", "build/z/w",
         "src/build/q", "top", "d/top", "t.tmp", "d/t.tmp", "d/loc", "u", "v w", "z"]
IGN_ROOT = [b"*.o\n", b"*.o\n!keep.o\n", b"build/\n", b"/top\n", b"*.o\nbuild/\n/top\n", b"u\n", b"d/\n!d/e\n", b"# c\n\n*.tmp\n"]
IGN_D = [b"*.tmp\n", b"/loc\n", b"!y.o\n", b"*.tmp\n/loc\n"]


def conflicts(m, p):
    for q in m:
        if q == p:
            continue
        if q.startswith(p + "/") or p.startswith(q + "/"):
            return True
    return False


def put(m, p, v):
    if conflicts(m, p):
        return False
    m[p] = v
    return True


def rcontent(rng):
    return rng.choice(CONTENTS)


def rmode(rng, p):
    if p == "l":
        return rng.choice(["l", "l", "l", "f"])
    return rng.choice(["f", "f", "f", "f", "f", "x", "x", "l"])


def gen_state(rng, features=("ita", "typechange", "samestat", "sha256", "filemode", "ignore", "racy", "stagedel")):
    """features: which deviation-prone ingredients may be used"""
    st = {"fmt": "sha1", "filemode": True, "racy": False, "exclude": b"", "dirs": []}
    if "sha256" in features and rng.random() < 0.12:
        st["fmt"] = "sha256"
    if "filemode" in features and rng.random() < 0.2:
        st["filemode"] = False
    if "racy" in features and rng.random() < 0.12:
        st["racy"] = True
    head, index, wt = {}, {}, {}
    cands = list(PATHS)
    rng.shuffle(cands)
    nhead = rng.choice([0, 1, 2, 3, 4, 5, 6])
    for p in cands[:nhead]:
        m = rmode(rng, p)
        put(head, p, (m, b"tgt" if m == "l" else rcontent(rng)))
    if "ignore" in features and rng.random() < 0.5:
        put(head, ".gitignore", ("f", rng.choice(IGN_ROOT)))
    # index from head
    for p, (m, c) in head.items():
        r = rng.random()
        if r < 0.70:
            index[p] = (m, c, "")
        elif r < 0.78:
            index[p] = (m, rcontent(rng) if m != "l" else b"other", "")
        elif r < 0.84 and m != "l":
            index[p] = ("x" if m == "f" else "f", c, "")
        elif r < 0.87 and "typechange" in features:
            index[p] = (("f", b"was link\n", "") if m == "l" else ("l", b"tgt2", ""))
        # else: staged deletion
    for p in cands[nhead:nhead + rng.choice([0, 0, 1, 2])]:
        m = rmode(rng, p)
        put(index, p, (m, b"tgt" if m == "l" else rcontent(rng), ""))
    if "ita" in features and rng.random() < 0.12:
        p = rng.choice(cands)
        if p not in index and p not in head:
            put(index, p, ("f", rcontent(rng), "ita"))
    # worktree from index
    for p, (m, c, f) in index.items():
        r = rng.random()
        if r < 0.58 or f == "ita":
            wt[p] = (m, c, "")
        elif r < 0.66:
            wt[p] = (m, c, "touch")
        elif r < 0.76:
            wt[p] = (m, (rcontent(rng) if m != "l" else b"moved"), "")
        elif r < 0.80 and m != "l":
            c2 = bytes((ch + 1) % 256 if ch not in (9, 10) else ch for ch in c) if c else b""
            wt[p] = (m, c2, "samestat" if ("samestat" in features and c2 != c and rng.random() < 0.5) else "")
        elif r < 0.86 and m != "l":
            wt[p] = ("x" if m == "f" else "f", c, rng.choice(["", "touch"]))
        elif r < 0.89 and "typechange" in features:
            wt[p] = ("f", b"now a file\n", "") if m == "l" else ("l", b"tgt3", "")
        elif r < 0.92:
            put(wt, p + "/sub", ("f", rcontent(rng), ""))     # tracked file replaced by a directory
        # else: deleted in the worktree
    # staged deletions whose file is still there
    if "stagedel" in features:
        for p, (m, c) in head.items():
            if p not in index and rng.random() < 0.4:
                # (a symbolic link keeps its target: an empty target cannot be created)
                put(wt, p, (m, c if (rng.random() < 0.6 or m == "l") else rcontent(rng), ""))
    # untracked files, ignore files
    for p in cands[-rng.choice([0, 1, 2, 3, 4]):]:
        if p not in wt and p not in index:
            m = rng.choice(["f", "f", "f", "x", "l"])
            put(wt, p, (m, b"tgt" if m == "l" else rcontent(rng), ""))
    if "ignore" in features:
        if ".gitignore" not in wt and rng.random() < 0.35:
            put(wt, ".gitignore", ("f", rng.choice(IGN_ROOT), ""))
        if rng.random() < 0.25:
            put(wt, "d/.gitignore", ("f", rng.choice(IGN_D), ""))
        if rng.random() < 0.15:
            st["exclude"] = rng.choice([b"*.ex\n", b"z\n", b"v w\n"])
            put(wt, "q.ex", ("f", b"1\n", ""))
    if rng.random() < 0.2:
        for d in rng.sample(["e1", "d/e2", "a/e3", "build/e4"], rng.choice([1, 2])):
            if not conflicts(wt, d + "/x") and d not in wt and not any(q.startswith(d + "/") for q in wt):
                st["dirs"].append(d)
    st["head"], st["index"], st["wt"] = head, index, wt
    return st


def ent(p, m, c, **k):
    d = {"p": p, "m": m, "c": c.hex()}
    d.update(k)
    return d


def recipe(st):
    r = {"fmt": st["fmt"], "filemode": st["filemode"], "racy": st["racy"], "exclude": st["exclude"].hex(), "dirs": list(st["dirs"]),
         "head": [ent(p, m, c) for p, (m, c) in sorted(st["head"].items())],
         "index": [ent(p, m, c, f=f) for p, (m, c, f) in sorted(st["index"].items())],
         "wt": [ent(p, m, c, t=t) for p, (m, c, t) in sorted(st["wt"].items())]}
    if {p: (m, c, "") for p, (m, c) in st["head"].items()} == st["index"]:
        r["noindex"] = True
    return r


def state_of(case):
    """inverse of recipe() (cases travel as JSON)"""
    st = {"fmt": case.get("fmt", "sha1"), "filemode": case.get("filemode", True), "racy": case.get("racy", False),
          "exclude": bytes.fromhex(case.get("exclude", "")), "dirs": list(case.get("dirs", []))}
    st["head"] = {e["p"]: (e.get("m", "f"), bytes.fromhex(e["c"])) for e in case.get("head", [])}
    st["index"] = {e["p"]: (e.get("m", "f"), bytes.fromhex(e["c"]), e.get("f", "")) for e in case.get("index", [])}
    st["wt"] = {e["p"]: (e.get("m", "f"), bytes.fromhex(e["c"]), e.get("t", "")) for e in case.get("wt", [])}
    return st


# ---------------------------------------------------------------- gitignore (the small grammar used above)

def parse_patterns(data, base):
    """-> list of (neg, dironly, anchored, glob, base) in file order"""
    out = []
    for line in data.decode().split("\n"):
        line = line.rstrip(" ")
        if not line or line.startswith("#"):
            continue
        neg = line.startswith("!")
        if neg:
            line = line[1:]
        dironly = line.endswith("/")
        if dironly:
            line = line[:-1]
        anchored = "/" in line
        if line.startswith("/"):
            line = line[1:]
        out.append((neg, dironly, anchored, line, base))
    return out


def pat_match(pat, path, isdir):
    neg, dironly, anchored, glob, base = pat
    if dironly and not isdir:
        return False
    if base:
        if not path.startswith(base + "/"):
            return False
        rel = path[len(base) + 1:]
    else:
        rel = path
    if anchored:
        return fnmatch.fnmatchcase(rel, glob) and rel.count("/") == glob.count("/")
    return fnmatch.fnmatchcase(rel.rsplit("/", 1)[-1], glob)


def verdict(pats, path, isdir):
    for pat in reversed(pats):
        if pat_match(pat, path, isdir):
            return not pat[0]
    return False


def ignored(st, path, with_exclude=True):
    """gitignore verdict for the file `path` of the worktree (as `git check-ignore`, without the index);
    with_exclude=False: .gitignore files only"""
    pats = parse_patterns(st["exclude"], "") if with_exclude else []
    comps = path.split("/")
    for k in range(len(comps)):
        d = "/".join(comps[:k])
        gi = (d + "/" if d else "") + ".gitignore"
        if gi in st["wt"] and st["wt"][gi][0] != "l":
            pats = pats + parse_patterns(st["wt"][gi][1], d)
        sub = "/".join(comps[:k + 1])
        if verdict(pats, sub, k < len(comps) - 1):
            return True
    return False
