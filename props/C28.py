"""C28 Add, remove, move, clean and commit produce git's index and trees (DESIGN.md §4.C28)."""
from vf.core import Suite, coq_N, coq_bool, coq_list
from props import porc_gen as pg

ID = "C28"
THEOREMS = [
    "C28_write_tree", "C28_write_tree_git_partial",
    "C28_write_tree_flat_partial", "C28_write_tree_flat_git_partial", "C28_ita_refuted",
    "C28_commit_symlink_refuted", "C28_commit_files",
    "C28_rm_file_eq", "C28_rm_dir_missing_refuted", "C28_rm_untracked_dir_refuted",
    "C28_rm_below_file_refuted", "C28_rm_deleted_dir_refuted",
    "C28_mv_eq_partial", "C28_mv_replaces_tracked_dest", "C28_mv_stat_refuted", "C28_mv_mkdir_refuted",
    "C28_clean_d_eq_partial", "C28_clean_subdir_refuted",
    "C28_clean_ignored_dir_refuted", "C28_add_below_tracked_file_refuted",
    "C28_add_ignored_refuted", "C28_add_filemode_refuted", "C28_add_replaced_dir_refuted",
    "C28_add_scope_eq", "C28_add_file_eq", "C28_add_deleted_eq", "C28_add_dir_eq", "C28_add_all_eq",
    "C28_rm_dir_eq", "C28_clean_nod_eq_partial",
    "C28_add_glob_eq", "C28_rm_glob_eq", "C28_rm_glob_missing_dir_refuted",
    "C28_tree_order", "C28_base_name_compare", "C28_write_tree_id_flat_partial",
    "C28_commit_head", "C28_commit_head_update", "C28_commit_merge_head_refuted", "C28_commit_amend_merge_refuted",
]
MODEL_FILES = ["Status.v", "IndexOps.v", "CommitHead.v", "WriteTree.v", "TreeObj.v", "IndexGlob.v"]
MODELLED = ("worktree_status.go doAdd / doAddDirectory / doAddFile (file, directory, All), AddGlob (go-billy util.Glob component by "
            "component, filepath.Match restricted to literals, '*' and '?'), doUpdateFileToIndex (mode, size, mtime from the file), "
            "Remove / doRemoveDirectory / doRemoveFile, RemoveGlob (index.Glob's whole-name match, doRemoveFile, "
            "removeEmptyDirectory incl. its failure on a missing directory), Move (incl. a destination that is still an index entry: "
            "addOrUpdateFileToIndex replaces it); worktree.go Clean / doClean; "
            "worktree_commit.go Commit: CommitOptions.Validate (parents default to HEAD), Amend, both empty-commit tests, "
            "updateHEAD (Model/CommitHead.v); buildTreeHelper.BuildTree (commitIndexEntry, doBuildTree with the never-written "
            "h.entries, zero-hash skip) and copyTreeToStorageRecursive (per-directory sort by sortName, Tree.Encode with "
            "Tree.Validate from C04's Model/TreeObj.v, SHA-1 object ids from C01's Spec/SHA.v: Model/WriteTree.v) on the "
            "flattened state of Model/Status.v; spec: git add / add -A / rm -r -f / mv / clean -f [-d] / write-tree "
            "(cache-tree.c transcription, base_name_compare) / commit [--amend] [--allow-empty] incl. MERGE_HEAD; not "
            "modelled: object storage, empty-directory clean-up beyond RemoveGlob's, character classes and escapes in glob "
            "patterns, commit metadata, signing and hooks, autocrlf (C31), CommitOptions.All")
TRUSTED = [
    "C-impl: the go-git operation on a repository built by harness/porc vs Model/IndexOps on every case (index and worktree listings, commit tree listing)",
    "oracle: the equivalent git command on a copy of the same repository: index (`ls-files -s` read back), worktree files, "
    "empty directories, `git status` after add/mv, tree id of `git write-tree`",
    "C-git: Spec/GitIndexOps vs the git command's result on every case (spec_mismatches)",
]
ASSUMPTIONS = ["object ids are injective on the generated contents (content identity stands for the id)",
               "Worktree.Status behaves as Model/Status says (C27; the generator avoids the C27 deviation shapes except where noted)"]
RULE = ("case = flattened (HEAD, index, worktree) state + one operation from {add file, add dir, add all, add glob, rm file, rm dir, "
        "rm glob, mv, clean, clean -d, commit (tree listing and tree id), commit on {unborn branch, branch, detached HEAD} x "
        "{plain, amend of a root / of a commit with a parent / of a merge} x {staged change, nothing staged, empty index} x "
        "AllowEmptyCommits x merge in progress} aimed at tracked / untracked / deleted / ignored / replaced-by-directory paths; "
        "mv also onto a destination that is {tracked and present, tracked and deleted on disk, tracked in HEAD with the deletion staged, "
        "untracked and present, absent} from a source that is {tracked clean, tracked modified, newly staged}; "
        "non-trivial = the operation changes the index, the worktree or produces a tree; distinct by content")

MODE = {"f": 0, "x": 1, "l": 2}
T1 = pg.T0 + 1


def model_inputs(st):
    """-> (content table as Coq list of hex strings, state expr)"""
    cids = {b"": 0}

    def cid(c):
        return cids.setdefault(c, len(cids))
    idxtime = T1 if st["racy"] else T1 + 10 ** 6
    head = ['("%s", %s, %s)' % (p.encode().hex(), coq_N(MODE[m]), coq_N(cid(c))) for p, (m, c) in sorted(st["head"].items())]
    index = []
    for p, (m, c, f) in sorted(st["index"].items()):
        if f == "ita":
            index.append('("%s", %s, %s, %s, %s, true)' % (p.encode().hex(), coq_N(MODE[m]), coq_N(0), coq_N(0), coq_N(1)))
        else:
            index.append('("%s", %s, %s, %s, %s, false)' % (p.encode().hex(), coq_N(MODE[m]), coq_N(cid(c)), coq_N(len(c)), coq_N(T1)))
    wt = []
    for p, (m, c, t) in sorted(st["wt"].items()):
        s = st["index"].get(p)
        kept = s is not None and s[0] == m and s[1] == c and t == ""
        mt = T1 if (kept or t == "samestat") else (T1 + 100 if t == "touch" else T1 + 50)
        wt.append('("%s", %s, %s, %s, %s, %s, %s)' % (p.encode().hex(), coq_N(MODE[m]), coq_N(cid(c)), coq_N(len(c)), coq_N(mt),
                                                        coq_bool(pg.ignored(st, p, False)), coq_bool(pg.ignored(st, p, True))))
    tbl = [None] * len(cids)
    for c, i in cids.items():
        tbl[i] = c
    state = "(mk_state %s %s %s %s %s %s)" % (coq_N(0), coq_bool(st["filemode"]), coq_N(idxtime), coq_list(head), coq_list(index), coq_list(wt))
    return coq_list(['"%s"' % c.hex() for c in tbl]), state


def call(prefix, c):
    st = pg.state_of(c)
    tbl, state = model_inputs(st)
    op = c["op"]
    hx = lambda s: '"%s"' % s.encode().hex()
    if op == "add":
        return "%sadd %s %s %s" % (prefix, tbl, state, hx(c["path"]))
    if op == "addall":
        return "%saddall %s %s" % (prefix, tbl, state)
    if op == "rm":
        return "%srm %s %s %s" % (prefix, tbl, state, hx(c["path"]))
    if op in ("addglob", "rmglob"):
        return "%s%s %s %s %s" % (prefix, op, tbl, state, hx(c["path"]))
    if op == "mv":
        return "%smv %s %s %s %s" % (prefix, tbl, state, hx(c["path"]), hx(c["to"]))
    if op == "clean":
        return "%sclean %s %s %s" % (prefix, tbl, state, coq_bool(c["dir"]))
    if op == "commithead":
        hk = {"unborn": 0, "branch": 1, "detached": 2}[c["hk"]]
        same = c["hist"] >= 1 and {q: (m, d) for q, (m, d, _) in st["index"].items()} == st["head"]
        tree = 1 if same else (0 if not st["index"] else 2)
        args = "%s %s %s %s %s %s %s" % (coq_N(hk), coq_N(c["hist"]), coq_bool(c["amend"]), coq_bool(c["allow"]),
                                         coq_bool(c["merge"]), coq_N(1), coq_N(tree))
        if prefix == "c28_":
            args += " " + coq_bool(not st["index"])
        return "%scommithead %s" % (prefix, args)
    return "%scommit_id %s %s" % (prefix, tbl, state)


def under(d, p):
    return p.startswith(d + "/")


def deviation(c):
    """the known-finding class the case falls in, if any"""
    st = pg.state_of(c)
    op, idx, wt = c["op"], st["index"], st["wt"]
    p = c.get("path")
    isdir = lambda q: q not in wt and any(under(q, w) for w in wt)
    if op == "commithead":
        same = c["hist"] >= 1 and {q: (m, d) for q, (m, d, _) in idx.items()} == st["head"]
        if c["merge"]:
            return "commit-ignores-merge-head"
        if c["amend"] and c["hist"] == 3 and not c["allow"] and same:
            return "commit-amend-merge-empty"
        return None
    if op == "commit":
        if any(m == "l" and q.rsplit("/", 1)[-1] in (".gitignore", ".gitattributes", ".mailmap", ".gitmodules") for q, (m, _, _) in idx.items()):
            return "commit-dotfile-symlink"
        return "commit-ita" if any(f == "ita" for (_, _, f) in idx.values()) else None
    if op == "rmglob":
        import re
        rx = re.compile("^" + "".join(".*" if ch == "*" else "." if ch == "?" else re.escape(ch) for ch in p) + "$", re.S)
        victims = [q for q in sorted(idx, key=lambda x: x.encode()) if rx.match(q)]
        if "*" not in p and "?" not in p and any(under(p, q) for q in idx):
            return "rmglob-directory-not-recursive"
        live = set(wt)
        for q in victims:
            if any(under(x, q) for x in live):
                return "rm-below-file"
            if q not in live and any(under(q, x) for x in live):
                return "rmglob-entry-is-directory"
            d = q.rsplit("/", 1)[0] if "/" in q else None
            if d is not None and not any(under(d, x) for x in live):
                return "rmglob-missing-dir"
            live.discard(q)
        for q in victims:
            comps = q.split("/")
            for k in range(1, len(comps) - 1):
                d = "/".join(comps[:k])
                if not any(under(d, x) for x in live) and not any(e == d or under(d, e) for e in st["dirs"]):
                    return "rmglob-empty-grandparent"
        return None
    if op == "addglob":
        import fnmatch
        def kids(d):
            pre = d + "/" if d else ""
            return sorted({x[len(pre):].split("/")[0] for x in wt if x.startswith(pre)})
        cands = [""]
        for cp in p.split("/"):
            cands = [(d + "/" if d else "") + n for d in cands if d == "" or isdir(d) for n in kids(d) if fnmatch.fnmatchcase(n, cp)]
        inscope = lambda q: any(q == m or under(m, q) for m in cands)
        if not st["filemode"]:
            for q, (m2, _, _) in wt.items():
                if inscope(q) and m2 != "l":
                    old = idx.get(q)
                    want = old[0] if (old is not None and old[0] != "l") else "f"
                    if m2 != want:
                        return "add-filemode-false"
        for m in cands:
            if any((q == m or under(m, q)) and isdir(q) for q in idx):
                return "add-file-replaced-by-dir"
            if m in wt and any(under(q, m) for q in idx):
                return "add-below-tracked-file"
            if m in wt and m not in idx and pg.ignored(st, m):
                return "add-ignored-explicit"
            if any((q == m or under(m, q)) and q not in wt and any(under(x, q) for x in wt) for q in idx):
                return "add-dir-replaced-by-file"
        return None
    if op in ("add", "addall", "mv") and not st["filemode"]:
        for q, (m, cont, t) in wt.items():
            old = idx.get(q if op != "mv" else p)
            if m != "l" and (op != "mv" or q == p) and (op != "add" or q == p or under(p, q)):
                want = old[0] if (old is not None and old[0] != "l") else "f"
                if m != want:
                    return "add-filemode-false"
    if op in ("add", "addall"):
        scope = (lambda q: True) if op == "addall" else (lambda q: q == p or under(p, q))
        if any(scope(q) and isdir(q) for q in idx):
            return "add-file-replaced-by-dir"
        if op == "add" and p in wt and any(under(q, p) for q in idx):
            return "add-below-tracked-file"
        if op == "add" and p in wt and p not in idx and pg.ignored(st, p):
            return "add-ignored-explicit"
        if op == "add" and isdir(p) and not any(under(p, q) for q in idx) and all(pg.ignored(st, q) for q in wt if under(p, q)):
            return "add-ignored-explicit"
        if any(scope(q) and q not in wt and any(under(x, q) for x in wt) for q in idx):
            return "add-dir-replaced-by-file"
        if op == "add" and isdir(p) and pg.ignored(st, p + "/\x01"):
            return "add-ignored-explicit"
    if op == "rm" and any(under(q, p) for q in wt) and (p in idx or any(under(p, q) for q in idx)):
        return "rm-below-file"
    if op == "rm" and p not in wt and not isdir(p) and p not in idx and any(under(p, q) for q in idx):
        return "rm-deleted-dir"
    if op == "mv" and p in idx and isdir(p):
        return "mv-source-is-directory"
    if op == "rm" and isdir(p) and any(under(p, q) and q not in wt for q in idx):
        return "rm-dir-missing-file"
    if op == "rm" and isdir(p) and any(under(p, d) or d == p for d in st["dirs"]):
        return "rm-prunes-empty-dirs"
    if op == "rm":
        gone = [q for q in wt if q in idx and (q == p or under(p, q))]
        left = [q for q in wt if q not in gone]
        for q in gone:
            comps = q.split("/")
            for k in range(1, len(comps)):
                d = "/".join(comps[:k])
                if not any(under(d, x) for x in left) and not any(e == d or under(d, e) for e in st["dirs"]):
                    return "rm-empty-dir"
    if op == "mv" and p in wt and p in idx and "/" in c["to"] and not isdir(c["to"].rsplit("/", 1)[0]) and c["to"] not in wt and not isdir(c["to"]):
        return "mv-mkdir"
    if op == "mv" and p in wt and p in idx and (wt[p][1] != idx[p][1] or wt[p][0] != idx[p][0]):
        return "mv-modified-stat"
    if op == "add" and p not in wt and p not in idx and not isdir(p) and any(under(p, q) for q in idx):
        return "add-deleted-dir"
    if op == "clean" and any(q not in idx and not pg.ignored(st, q) and any(under(e, q) for e in idx) for q in wt):
        return "clean-under-tracked-name"
    if op == "clean" and c["dir"] and any(pg.ignored(st, d + "/\x01") for d in st["dirs"]):
        return "clean-removes-ignored-empty-dir"
    if op == "clean" and c["dir"]:
        for e in st["dirs"]:                      # an empty directory below a directory whose tracked files are all deleted
            comps = e.split("/")
            for k in range(1, len(comps)):
                d = "/".join(comps[:k])
                rest = [x for x in wt if under(d, x) and (x in idx or pg.ignored(st, x))]
                if not rest and any(under(d, x) for x in idx):
                    return "clean-rmdir-tracked"
        for q in wt:
            if q not in idx and not pg.ignored(st, q) and "/" in q:
                comps = q.split("/")
                for k in range(1, len(comps)):
                    d = "/".join(comps[:k])
                    rest = [x for x in wt if under(d, x) and (x in idx or pg.ignored(st, x))]
                    if not rest and any(under(d, e) for e in idx):
                        return "clean-rmdir-tracked"
    if op == "clean" and not c["dir"]:
        for q in wt:
            if "/" in q and q not in idx and not pg.ignored(st, q):
                comps = q.split("/")
                if all(any(under("/".join(comps[:k]), e) for e in idx) for k in range(1, len(comps))):
                    return "clean-subdir"
    return None


class Main(Suite):
    name = "main"
    go_cmd = "c28"
    coq_imports = "From GoGit Require Import Model.Status Model.IndexOps Spec.GitIndexOps Model.CommitHead Spec.GitCommitHead Model.WriteTree Spec.GitWriteTree Model.IndexGlob Spec.GitIndexGlob."
    quick_n = 128
    thorough_n = 400
    coq_chunk = 60

    def gen(self, rng, n, tier):
        cases = []
        ops = ["add", "add", "adddir", "addall", "rm", "rmdir", "mv", "clean", "cleand", "commit", "commit", "commithead", "commithead",
               "addglob", "rmglob", "addglob"]
        nhead = 0
        for k in range(n):
            kind = ops[k % len(ops)]
            if kind == "commithead":
                cases.append(self.gen_commithead(rng, nhead))
                nhead += 1
                continue
            feats = ["ignore", "racy", "typechange", "stagedel"]
            if kind == "commit" and rng.random() < 0.3:
                feats.append("ita")
            if rng.random() < 0.1:
                feats.append("filemode")
            st = pg.gen_state(rng, features=tuple(feats))
            st["exclude"] = b""
            st["wt"].pop("q.ex", None)
            st["fmt"] = "sha1"
            if kind != "commit":
                for p in [p for p, v in st["index"].items() if v[2] == "ita"]:
                    del st["index"][p]
            c = pg.recipe(st)
            idx, wt = st["index"], st["wt"]
            allp = sorted(set(idx) | set(wt) | set(st["head"]))
            dirs = sorted({"/".join(p.split("/")[:k]) for p in allp for k in range(1, p.count("/") + 1)})
            pick = lambda l, d: rng.choice(l) if l else d
            if kind == "add":
                c["op"], c["path"] = "add", pick(allp + ["nosuch"], "nosuch")
            elif kind == "adddir":
                c["op"], c["path"] = "add", pick(dirs, "d")
            elif kind == "addall":
                c["op"] = "addall"
            elif kind == "rm":
                c["op"], c["path"] = "rm", pick(sorted(idx) * 3 + allp, "nosuch")
            elif kind == "rmdir":
                c["op"], c["path"] = "rm", pick(dirs, "d")
            elif kind == "mv":
                c["op"], c["path"] = "mv", pick(sorted(set(idx) & set(wt)) * 3 + allp, "nosuch")
                c["to"] = rng.choice(["new", "d/new", "nd/new"] + allp[:2])
                if any(c["to"].startswith(q + "/") for q in wt):      # a file where a directory is needed: not a rename question
                    c["to"] = "new"
            elif kind in ("addglob", "rmglob"):
                # patterns of literals, '*' and '?', aimed at what the state holds: a directory with something to add
                # below it (matched at the top, or one level down), a changed / untracked / tracked file, or anything
                c["op"] = kind
                c["dirs"] = []          # directory listings of the model: the files only
                changed = [q for q in wt if q not in idx or idx[q][:2] != wt[q][:2]] + [q for q in idx if q not in wt]
                src = sorted(idx) if kind == "rmglob" else sorted(changed)
                nested = [q for q in src if "/" in q]
                r = rng.random()
                if nested and r < 0.35:
                    top = rng.choice(nested).split("/")[0]
                    c["path"] = rng.choice([top[0] + "*", "*", top, "?" * len(top), top[:-1] + "?"])
                elif nested and r < 0.55:
                    q = rng.choice(nested)
                    d, base = q.rsplit("/", 1)
                    c["path"] = rng.choice([d + "/*", "*/" + base if d.count("/") == 0 else d + "/" + base[0] + "*", d + "/" + "?" * len(base)])
                elif src and r < 0.8:
                    q = rng.choice(src)
                    c["path"] = rng.choice([q[:-1] + "?", q[0] + "*", "*" + q[-1], q]) if "/" not in q else rng.choice(["*/*", q, q.split("/")[0] + "/*"])
                else:
                    c["path"] = rng.choice(["*", "d*", "?", "a*", "*.o", "d/*", "*/*", "d/?", "a/?", "d/g/*", "*/g/?", "nosuch*", "b", "d",
                                            "build/*", "*x", "??", "d.?"])
            elif kind in ("clean", "cleand"):
                c["op"], c["dir"] = "clean", kind == "cleand"
            else:
                c["op"] = "commit"
            # the model has no empty directories: a path argument must not exist only through them
            for arg in (c.get("path"), c.get("to")):
                if arg:
                    top = arg.split("/")[0]
                    if not any(q == top or q.startswith(top + "/") for q in wt):
                        c["dirs"] = [e for e in c["dirs"] if e.split("/")[0] != top]
            c["bucket"] = kind
            cases.append(c)
        # mv onto every kind of destination (appended, so the cases above stay what they were)
        for j in range(15 if tier == "quick" else 60):
            cases.append(self.gen_mvdst(rng, j))
        return cases

    # destination x source shapes of the mv-dst bucket, enumerated in turn
    MV_DST = ["deleted", "present", "stagedel", "untracked", "absent"]
    MV_SRC = ["clean", "modified", "stagednew"]

    def gen_mvdst(self, rng, j):
        """Move(from, to) where `to` is tracked and present / tracked and deleted on disk (unstaged) / tracked in HEAD
        with the deletion staged / untracked and present / absent, from a source that is tracked and clean /
        tracked and modified / newly staged.  Lstat(to) only speaks for the worktree: a destination that is still
        in the index must have its entry REPLACED (git mv: ADD_CACHE_OK_TO_REPLACE), never doubled."""
        dk, sk = self.MV_DST[j % 5], self.MV_SRC[(j // 5) % 3]
        src = rng.choice(["a", "s", "d/e", "v w", "d/g/a"])
        dst = rng.choice(["b", "d/f", "zz", "a.x", "d/g/h", "c0"])
        head, index, wt = {}, {}, {}
        for p in ["c", "d/k"] + (["d/g/k"] if (rng.random() < 0.6 or src.startswith("d/g/") or (dst.startswith("d/g/") and rng.random() < 0.8)) else []) + (["zzz"] if rng.random() < 0.3 else []):
            v = pg.rcontent(rng)
            head[p], index[p], wt[p] = ("f", v), ("f", v, ""), ("f", v, "")
        sm = rng.choice(["f", "f", "f", "x", "l"])
        sc = b"tgt" if sm == "l" else rng.choice([b"S\n", b"source\n", b"1\n", b""])
        index[src] = (sm, sc, "")
        if sk != "stagednew":
            head[src] = (sm, sc)
        wt[src] = (sm, (b"moved" if sm == "l" else sc + b"more\n"), "") if sk == "modified" else (sm, sc, "")
        dm = rng.choice(["f", "f", "x"])
        dc = rng.choice([b"D\n", b"dest\n", b"2\n", sc if sm != "l" else b"D\n"])
        if dk in ("deleted", "present", "stagedel") and not (dk == "deleted" and rng.random() < 0.25):
            head[dst] = (dm, dc)                       # (a quarter of the deleted ones were only ever staged)
        if dk in ("deleted", "present"):
            index[dst] = (dm, dc if rng.random() < 0.8 else dc + b"staged\n", "")
        if dk in ("present", "untracked"):
            wt[dst] = (dm, dc if rng.random() < 0.7 else b"on disk\n", "")
        st = {"fmt": "sha1", "filemode": True, "racy": rng.random() < 0.1, "exclude": b"", "dirs": [],
              "head": head, "index": index, "wt": wt}
        c = pg.recipe(st)
        c.update({"op": "mv", "path": src, "to": dst, "bucket": "mv-dst-%s-%s" % (dk, sk)})
        return c

    # HEAD shapes x options of the commithead bucket, enumerated in turn
    HEADS = [("branch", 1), ("branch", 2), ("unborn", 0), ("detached", 1), ("detached", 2), ("branch", 3), ("detached", 3)]

    def gen_commithead(self, rng, j):
        """Commit's parents / HEAD update: unborn branch, branch, detached HEAD, amend (of a root, of a commit with a
        parent, of a merge), empty and non-empty commits, AllowEmptyCommits, a merge in progress (.git/MERGE_HEAD)"""
        hk, hist = self.HEADS[j % len(self.HEADS)]
        st = pg.gen_state(rng, features=("racy",))
        st["exclude"], st["fmt"], st["filemode"] = b"", "sha1", True
        if hist == 0:
            st["head"] = {}
        elif not st["head"]:
            st["head"] = {"a": ("f", b"1\n")}
        r = rng.random()
        if hist >= 1 and r < 0.35:
            st["index"] = {q: (m, d, "") for q, (m, d) in st["head"].items()}      # nothing staged
        elif r < 0.45:
            st["index"] = {}                                                        # empty index
        elif hist >= 1 and {q: (m, d) for q, (m, d, _) in st["index"].items()} == st["head"]:
            st["index"]["zz"] = ("f", b"new\n", "")
        st["wt"] = {q: (m, d, "") for q, (m, d, _) in st["index"].items()}
        st["dirs"] = []
        c = pg.recipe(st)
        c.update({"op": "commithead", "hk": hk, "hist": hist, "amend": rng.random() < 0.4, "allow": rng.random() < 0.25,
                  "merge": hist >= 1 and rng.random() < 0.12, "bucket": "commithead"})
        return c

    def model_expr(self, c):
        if c["op"] == "mv":
            st = pg.state_of(c)
            if c["path"] in st["index"] and c["path"] not in st["wt"] and any(under(c["path"], q) for q in st["wt"]):
                return None   # Move writes an entry with mode 040000: outside the model's file modes (finding mv-source-is-directory)
        return call("c28_", c)

    def nontrivial(self, c):
        return True

    def oracle(self, ctx, cases, impl, model):
        """the property itself: index, remaining files, status after add/mv and the committed tree equal git's"""
        fails = {}
        self.status_only = 0
        for c in cases:
            r = impl.get(c["id"])
            ex = r.get("extra") if r else None
            if not isinstance(ex, dict):
                fails[c["id"]] = "no reply"
                continue
            why = []
            if ex.get("git_cannot_read_index"):
                why.append("git cannot read the index go-git wrote: " + ex["git_cannot_read_index"][:120])
            # The exit status alone is not part of the property (same index entries and remaining files): git also
            # exits 1 after doing the work (e.g. `git add <tracked file below an ignored directory>` updates the
            # index and then complains about the directory), and a refusal on one side shows up as a state difference.
            if c["op"] != "commithead" and bool(ex.get("err")) != bool(ex.get("giterr")):
                self.status_only = getattr(self, "status_only", 0) + 1
            if c["op"] == "commithead":
                if ex.get("obs") != ex.get("git_obs"):
                    why.append("commit result / parents / HEAD update %s differ from git commit %s" % (ex.get("obs"), ex.get("git_obs")))
                elif ex.get("tree_id") != ex.get("git_tree_id"):
                    why.append("commit tree %s differs from git's %s" % (ex.get("tree_id"), ex.get("git_tree_id")))
            elif c["op"] == "commit":
                if ex.get("err") and not ex.get("giterr"):
                    why.append("Commit fails (%s) where git write-tree succeeds" % ex["err"][:120])
                if not ex.get("err") and ex.get("tree_id") != ex.get("git_tree_id"):
                    why.append("commit tree %s differs from git write-tree %s" % (ex.get("tree_id"), ex.get("git_tree_id")))
                if not ex.get("err") and not ex.get("head_is_commit"):
                    why.append("HEAD does not point at the new commit")
                if not ex.get("err") and ex.get("parents") != (1 if c.get("head") else 0):
                    why.append("wrong number of parents: %s" % ex.get("parents"))
            else:
                for k, label in (("index", "index"), ("wt", "worktree"), ("status", "git status afterwards")):
                    a, b = ex.get("a_" + k), ex.get("b_" + k)
                    if a != b:
                        da = [x for x in (a or []) if x not in (b or [])][:3]
                        db = [x for x in (b or []) if x not in (a or [])][:3]
                        why.append("%s differs: only go-git %r, only git %r" % (label, da, db))
            if why:
                fails[c["id"]] = "; ".join(why)
        return fails

    def finding_class(self, c, reason, reply):
        if reason == "panic":
            return None
        return deviation(c)

    def extra(self, ctx, cases, impl, model):
        # C-git: S against what the git command left behind
        exprs = [call("c28_git_", c) for c in cases]
        outs = ctx.coq_eval(self.coq_imports, exprs, chunk=60)
        bad = 0
        for c, o in zip(cases, outs):
            r = impl.get(c["id"])
            ex = r.get("extra") if r else None
            if not isinstance(ex, dict) or o is None:
                bad += o is None
                continue

            def rend(l, drop_dirs=True):
                items = []
                for x in l or []:
                    m, rest = x.split(" ", 1)
                    if m == "d":
                        continue
                    st = pg.state_of(c)
                    items.append(x)
                return items
            if c["op"] == "add" and c["path"] not in pg.state_of(c)["wt"] and pg.ignored(pg.state_of(c), c["path"] + "/\x01"):
                continue   # an ignored directory named explicitly: the verdict for directories is not part of the state
            if c["op"] == "mv" and self.model_expr(c) is None:
                continue
            if c["op"] == "commithead":
                if o != ex.get("git_obs"):
                    bad += 1
                    ctx.notes.append("spec_mismatch GitCommitHead vs git on %s: S %s / git %s" % (
                        {k: v for k, v in c.items() if k != "id"}, o, ex.get("git_obs")))
                continue
            if c["op"] == "commit":
                # S = the transcription of cache-tree.c (Spec/GitWriteTree.v) against `git write-tree`
                if not ex.get("giterr") and o != "x" + (ex.get("git_tree_id") or ""):
                    bad += 1
                    ctx.notes.append("spec_mismatch GitWriteTree vs git on %s: S %s / git %s" % (
                        {k: v for k, v in c.items() if k != "id"}, o, ex.get("git_tree_id")))
                continue
            want_err = bool(ex.get("giterr"))
            got_err = o.startswith("( err")
            # compare listings textually: rebuild S's listing in the harness' plain form
            import re
            def plain(part):
                return ["%s %s %s" % (m, bytes.fromhex(p).decode(), bytes.fromhex(d).decode("utf-8", "replace"))
                        for p, m, d in re.findall(r"\( x([0-9a-f]*) (\w+) x([0-9a-f]*) \)", part)]
            parts = o.split(" ( ", 1)[1] if " ( " in o else ""
            # o = ( ok|err (index...) (wt...) ): split at the top-level boundary
            depth, cut = 0, None
            body = o[o.index("(", 1):] if "(" in o[1:] else ""
            for i, ch in enumerate(body):
                if ch == "(":
                    depth += 1
                elif ch == ")":
                    depth -= 1
                    if depth == 0:
                        cut = i + 1
                        break
            si, sw = plain(body[:cut] if cut else ""), plain(body[cut:] if cut else "")
            gi = list(ex.get("b_index") or [])
            gw = [x for x in (ex.get("b_wt") or []) if not x.startswith("d ")]
            if si != gi or sw != gw:
                bad += 1
                ctx.notes.append("spec_mismatch GitIndexOps vs git on %s: S %s / git err=%s idx=%s wt=%s" % (
                    {k: v for k, v in c.items() if k != "id"}, o[:400], want_err, gi, gw))
        return {"spec_vs_git_cases": len(cases), "spec_mismatches": bad,
                "exit_status_only_differences": getattr(self, "status_only", 0)}


SUITES = [Main()]
