"""C30 Non-forced checkout and merge/keep resets never lose local changes (DESIGN.md §4.C30)."""
from props import porcelain_lib as P
from props.C25 import MODELLED as _M

ID = "C30"
THEOREMS = ["C30_staged_new_refuted", "C30_untracked_refuted", "C30_keep_refuted", "C30_unstaged_refused_reset",
            "C30_unstaged_refused_checkout", "C30_merge_partial", "C30_checkout_partial", "C30_keep_partial",
            "C30_mixed_keeps_worktree", "C30_soft_keeps_all", "C30_checkout_keep"]
MODEL_FILES = ["Porcelain.v"]
MODELLED = _M
TRUSTED = [
    "C-impl: harness/cmd/porcelain vs Model/Porcelain.porcelain_run (result class + snapshot after every op)",
    "direct oracle: for every SUCCESSFUL checkout without Force and every successful reset in merge / keep / soft / mixed mode, every worktree "
    "file that held local content before the call (checkout, keep, soft, mixed: differs from HEAD's tree or is not in it; merge: differs from "
    "the index or is not in it — staged content is discarded by reset --merge by definition) must have the same kind and bytes afterwards",
]
ASSUMPTIONS = ["object ids are injective on the blobs of a case", "df_free cases only are given to the model; the oracle runs on all"]
RULE = ("porcelain recipes (see C25) as (current commit, target commit, local modification) triples: staged new / staged modified / "
        "staged deleted entries, unstaged edits of touched and untouched files, untracked files at paths the target adds or not, "
        "rm --cached paths, identical-content untracked files; non-trivial = has a porcelain op; distinct by content")


class Main(P.PorcelainSuite):
    name = "main"
    quick_n = 150
    thorough_n = 1000
    buckets = [(4, "staged"), (4, "untracked"), (3, "keep"), (2, "unstaged"), (2, "rmcached"), (2, "random"), (1, "missing"), (1, "df")]
    weights = {"force": 1, "plain": 6, "ckeep": 2, "hard": 1, "merge": 4, "keep": 4, "mixed": 1, "soft": 1}

    def gen(self, rng, n, tier):
        cs = super().gen(rng, n, tier)
        for c in cs:
            c["git"] = "none"
        return cs

    def oracle(self, ctx, cases, impl, model):
        fails = {}
        self.checked = 0
        for c in cases:
            r = impl.get(c["id"])
            if r is None or not (r.get("extra") or {}).get("steps"):
                fails[c["id"]] = "other|no reply from the implementation"
                continue
            for k, (op, pre, st) in enumerate(P.steps_of(c, r)):
                if st["res"] != "ok":
                    continue
                if op["op"] == "checkout" and not op.get("force"):
                    kind = "checkout-keep" if op.get("keep") else "checkout"
                elif op["op"] == "reset" and op["mode"] in ("merge", "keep", "soft", "mixed"):
                    kind = "reset-" + op["mode"]
                else:
                    continue
                self.checked += 1
                why = self.lost(c, k, kind, op, pre, st["snap"])
                if why:
                    fails[c["id"]] = why
                    break
        return fails

    def lost(self, c, k, kind, op, pre, post):
        prewt, preidx, postwt = P.fmap(pre["wt"]), P.fmap(pre["index"]), P.fmap(post["wt"])
        hd = P.tree(c, P.head_commit(pre)) or {}
        t = P.tree(c, P.target_commit(c, op, pre)) or {}
        for p, e in sorted(prewt.items()):
            if kind == "reset-merge":
                local = preidx.get(p) != e
            else:
                local = hd.get(p) != e
            if not local or postwt.get(p) == e:
                continue
            # local content at p is gone: name the shape
            cls = "other"
            staged = preidx.get(p) == e
            untracked = p not in preidx
            if kind == "checkout" and staged:
                cls = "checkout-staged-content-lost"
            elif kind in ("checkout", "reset-merge") and untracked and p in t:
                cls = "mergereset-untracked-overwritten"
            elif kind == "reset-keep" and hd.get(p) == t.get(p) and p in t:
                cls = "keepreset-untouched-overwritten"
            elif kind == "reset-keep" and untracked and p in hd and p not in t:
                cls = "keepreset-untracked-head-path-deleted"
            return "%s|op %d %s succeeded but local content %s at %s (index %s, HEAD %s, target %s) is now %s" % (
                cls, k, op, e, p, preidx.get(p), hd.get(p), t.get(p), postwt.get(p))
        return None

    def finding_class(self, case, reason, reply):
        cls = reason.split("|", 1)[0]
        return None if cls == "other" else cls

    def extra(self, ctx, cases, impl, model):
        return {"successful_nonforced_ops_checked": getattr(self, "checked", 0)}


SUITES = [Main()]
