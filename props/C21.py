"""C21 A crash at any point leaves a readable, connected repository (DESIGN.md §4.C21)."""
import os
import re
from vf.core import Suite, coq_list, coq_bool
from vf.gen import pick_weighted

ID = "C21"
THEOREMS = ["C21_checker_sound", "C21_setobj_safe", "C21_packwrite_safe", "C21_rmref_safe", "C21_packrefs_safe",
            "C21_prune_safe", "C21_repack_safe", "C21_sequence", "C21_commit_objects_safe", "C21_commit_partial",
            "C21_setref_refuted", "C21_setref_partial", "C21_casref_refuted", "C21_casref_partial",
            "C21_setindex_refuted", "C21_setindex_partial", "C21_setconfig_refuted", "C21_setconfig_partial",
            "C21_setshallow_refuted", "C21_setshallow_partial"]
MODEL_FILES = ["Gc.v", "Crash.v"]
MODELLED = ("the filesystem mutation sequences of: dotgit ObjectWriter (loose object), PackWriter.save (idx, rev, promisor marker, pack rename), "
            "DotGit.SetRef/setRefRwfs with and without old value, RemoveRef/rewritePackedRefsWithoutRef, PackRefs, IndexStorage.SetIndex, "
            "ConfigStorage.SetConfig, ShallowStorage.SetShallow, Repository.RepackObjects/createNewObjectPack/DeleteOldObjectPackAndIndex, "
            "Repository.Prune (Model/Crash.v, using the C22 walker model Model/Gc.v); repo_ok = every ref file, packed-refs, shallow, index, config "
            "completely written, every pack has its idx, everything reachable from the effective refs available; not modelled: file contents "
            "(abstract: whole / empty / torn), the number of write calls per file (merged), directory creation, permissions, fsync (process-stop "
            "crash model: completed calls are durable), porcelain operations above the storage layer (commit, fetch: their storage steps are the "
            "modelled primitives)")
TRUSTED = [
    "C-impl (trace validation): the mutation sequence recorded by the billy wrapper harness/b11rec below go-git's storage (kinds and paths, temp names / pack names / object ids canonicalised, consecutive writes and unordered removal runs merged) equals Model/Crash.ops_of on every case",
    "direct oracle: every crash state (after each recorded mutation, inside each write with a torn half, inside each removal run) is materialised in a scratch directory and judged by go-git (IterReferences, object walk from all refs, Index, Config, Shallow) and, on a sample / in the thorough tier, by `git fsck --connectivity-only`; a bad state the model calls ok is a violation, a bad state the model predicts is a known-finding class",
]
ASSUMPTIONS = ["process-stop crash model: a completed filesystem call is durable and calls take effect in program order (no power-loss reordering)",
               "rename, remove and create are atomic; a write may stop after any prefix of its data",
               "HEAD pointing at a branch that does not exist (unborn) counts as resolvable, as for git fsck"]
RULE = ("case = abstract repository (history with loose/packed/both placement, dangling objects, packed and loose refs, shadowed packed entries, "
        "shallow roots, index) + one mutating storage operation with its arguments; every crash state of the operation is judged; non-trivial = "
        "the operation performs at least two mutations; distinct by content")

MODES = {"100644": 0o100644, "100755": 0o100755, "40000": 0o40000}
KNOWN_WINDOW_OPS = {"setref": "ref-truncate-window", "commit": "ref-truncate-window", "casref": "ref-truncate-window", "setindex": "index-truncate-window",
                    "setconfig": "config-torn-write", "setshallow": "shallow-truncate-window"}


def gen_case(rng, bucket):
    objs = []

    def add(o):
        objs.append(o)
        return len(objs) - 1

    def place():
        return list(pick_weighted(rng, [(5, ["loose"]), (3, ["p0"]), (2, ["p1"]), (1, ["loose", "p0"]), (1, ["p0", "p1"])]))

    def blob(tag, at=None):
        return add({"k": "blob", "data": ("%s %d\n" % (tag, rng.randrange(10**6))).encode().hex(), "at": place() if at is None else at, "old": rng.random() < 0.6})

    def tree(es, at=None):
        es = sorted(es, key=lambda e: e[1] + ("/" if e[0] == "40000" else ""))
        return add({"k": "tree", "entries": [{"mode": m, "name": n.encode().hex(), "ref": r} for m, n, r in es], "at": place() if at is None else at, "old": rng.random() < 0.6})

    def commit(t, ps, msg, at=None):
        return add({"k": "commit", "tree": t, "parents": ps, "msg": msg, "at": place() if at is None else at, "old": rng.random() < 0.6})

    commits, shallow = [], []
    n = rng.randrange(1, 5)
    last_tree = None
    for i in range(n):
        b = blob("f%d" % i)
        es = [("100644", "f", b)]
        if last_tree is not None and rng.random() < 0.5:
            es.append(("40000", "sub", last_tree))
        if rng.random() < 0.4:
            es.append(("100755", "x", blob("x%d" % i)))
        t = tree(es)
        last_tree = t
        ps = [commits[-1]] if commits else []
        if len(commits) > 2 and rng.random() < 0.2 and bucket != "shallow":
            ps.append(commits[0])
        commits.append(commit(t, ps, "c%d" % i))
    if bucket == "shallow" and len(commits) > 1:
        # cut the history below commit 1: its parent is not in the repository
        shallow = [commits[1]]
        objs[commits[0]]["at"] = []
        commits_avail = commits[1:]
    else:
        commits_avail = list(commits)
    tip = commits[-1]
    tags = []
    if rng.random() < 0.3:
        tags.append(add({"k": "tag", "target": rng.choice(commits_avail), "msg": "v1", "at": place(), "old": True}))
    # refs
    refs, packed = [], []
    names = ["refs/heads/main"]
    refs.append({"name": "refs/heads/main", "ref": tip})
    if rng.random() < 0.6:
        refs.append({"name": "refs/heads/dev", "ref": rng.choice(commits_avail)})
    if tags:
        refs.append({"name": "refs/tags/v1", "ref": tags[0]})
    if rng.random() < 0.3:
        refs.append({"name": "refs/remotes/origin/main", "ref": rng.choice(commits_avail)})
    if bucket in ("packedrefs", "stale") or rng.random() < 0.3:
        # move some refs into packed-refs; some stay loose as well (shadowed entries)
        for r in list(refs):
            k = rng.random()
            if k < 0.4:
                packed.append(dict(r))
                refs.remove(r)
            elif k < 0.6:
                packed.append({"name": r["name"], "ref": rng.choice(commits_avail)})
        if rng.random() < 0.5:
            packed.append({"name": "refs/heads/only-packed", "ref": rng.choice(commits_avail)})
    head = {"sym": "refs/heads/main"} if rng.random() < 0.75 else {"ref": rng.choice(commits_avail)}
    # dangling objects; one per pack so that no new pack can coincide with an old one
    d0 = blob("dangling-p0", ["p0"])
    d1 = blob("dangling-p1", ["p1"])
    dl = [blob("dangling-loose", ["loose"]) for _ in range(rng.randrange(0, 3))]
    stale = None
    if bucket == "stale":
        # a packed entry shadowed by a loose ref and naming an object that has been pruned since
        gone = commit(last_tree, [], "pruned", at=[])
        loose_names = [r["name"] for r in refs if "ref" in r]
        if loose_names:
            nm = rng.choice(loose_names)
            packed = [p for p in packed if p["name"] != nm] + [{"name": nm, "ref": gone}]
            stale = nm
    # future objects: a new commit on top of the tip, not stored yet
    nb = blob("new", [])
    nt = tree([("100644", "f", nb)], [])
    nc = commit(nt, [tip], "new commit", [])
    index = []
    if rng.random() < 0.7:
        for i, b in enumerate(e["ref"] for e in objs[objs[tip]["tree"]]["entries"] if e["mode"] != "40000"):
            index.append({"path": ("f%d" % i).encode().hex(), "ref": b, "mode": "100644"})
    packs = [{"name": "p0", "old": rng.random() < 0.6, "promisor": False, "window": rng.choice([0, 10])},
             {"name": "p1", "old": rng.random() < 0.6, "promisor": False, "window": rng.choice([0, 10])}]
    packed.sort(key=lambda r: r["name"])
    packed_empty = not packed and rng.random() < 0.15      # an empty packed-refs file
    c = {"bucket": bucket, "objects": objs, "packs": packs, "refs": refs, "packed": packed, "head": head, "shallow": shallow, "index": index,
         "threshold": False, "fsck": False, "all_states": False, "packed_empty": packed_empty}
    # the operation
    ops = [(3, "setobj"), (3, "packwrite"), (4, "setref"), (3, "casref"), (3, "rmref"), (3, "packrefs"), (2, "setindex"), (2, "setconfig"),
           (2, "setshallow"), (4, "repack"), (3, "prune"), (3, "commit")]
    op = pick_weighted(rng, ops)
    if bucket == "stale" and stale:
        op = "rmref"
    if bucket == "packedrefs":
        op = rng.choice(["rmref", "packrefs", "casref", "setref"])
    if bucket == "shallow":
        op = rng.choice(["setshallow", "repack", "prune", "setref"])
    c["op"] = op
    loose_names = [r["name"] for r in refs]
    packed_names = [r["name"] for r in packed]
    if op == "setobj":
        c["obj"] = rng.choice([nb, nt, nc] + [i for i, o in enumerate(objs) if o["at"]][:6])
    elif op == "packwrite":
        c["ids"] = [nb, nt, nc] if rng.random() < 0.7 else [nb, nt]
        c["promisor"] = rng.random() < 0.2
    elif op == "setref":
        k = rng.random()
        if k < 0.2:
            c["name"], c["sym"] = "HEAD", rng.choice(["refs/heads/main", "refs/heads/dev", "refs/heads/unborn"])
        elif k < 0.3:
            c["name"], c["ref"] = "HEAD", rng.choice(commits_avail)
        else:
            c["name"], c["ref"] = rng.choice(loose_names + packed_names + ["refs/heads/new", "refs/heads/deep/er/new"]), rng.choice(commits_avail)
    elif op == "casref":
        cand = [(r["name"], r["ref"]) for r in refs] + [(r["name"], r["ref"]) for r in packed if r["name"] not in loose_names and r["ref"] != (None if stale is None else -1)]
        cand = [x for x in cand if objs[x[1]]["at"]]
        nm, cur = rng.choice(cand)
        c["name"], c["old"], c["ref"] = nm, cur, rng.choice(commits_avail)
    elif op == "rmref":
        c["name"] = stale if (bucket == "stale" and stale) else rng.choice(loose_names + packed_names + ["refs/heads/none"])
    elif op == "setindex":
        c["newindex"] = index[:1] + [{"path": b"staged".hex(), "ref": rng.choice(dl + [d0]), "mode": "100644"}]
    elif op == "setconfig":
        c["url"] = "r%d.git" % rng.randrange(100)
    elif op == "setshallow":
        c["ids"] = list(shallow) + ([tip] if rng.random() < 0.3 else [])
    elif op == "commit":
        # what Worktree.Commit writes for this index: new trees bottom-up (existing ones are skipped), the commit, then the ref
        files = [("f%d" % i, b) for i, b in enumerate(rng.sample([i for i, o in enumerate(objs) if o["k"] == "blob" and o["at"]], rng.randrange(1, 3)))]
        sub = [("g%d" % i, b) for i, b in enumerate(rng.sample([i for i, o in enumerate(objs) if o["k"] == "blob" and o["at"]], rng.randrange(0, 2)))]
        c["index"] = [{"path": n.encode().hex(), "ref": b, "mode": "100644"} for n, b in files] + \
                     [{"path": ("d/" + n).encode().hex(), "ref": b, "mode": "100644"} for n, b in sub]
        new = []

        def tree_for(es):
            es = sorted(es, key=lambda e: e[1] + ("/" if e[0] == "40000" else ""))
            enc = [{"mode": m, "name": n.encode().hex(), "ref": r} for m, n, r in es]
            for i, o in enumerate(objs):
                if o["k"] == "tree" and o["entries"] == enc:
                    if not o["at"] and i not in new:
                        new.append(i)
                    return i
            i = add({"k": "tree", "entries": enc, "at": [], "old": False})
            new.append(i)
            return i
        root = [("100644", n, b) for n, b in files]
        if sub:
            root.append(("40000", "d", tree_for([("100644", n, b) for n, b in sub])))
        rt = tree_for(root)
        eff = effective_refs(c)
        if "sym" in head:
            parent = eff.get(head["sym"])
            c["name"] = head["sym"]
        else:
            parent = head["ref"]
            c["name"] = "HEAD"
        c["msg"] = "commit %d" % rng.randrange(10**6)
        cm = add({"k": "commit", "tree": rt, "parents": [parent] if parent is not None else [], "msg": c["msg"], "at": [], "old": False})
        new.append(cm)
        c["commit_objs"] = new
        c["ref"] = cm
    elif op in ("repack", "prune"):
        c["threshold"] = rng.random() < 0.35
        c["refdeltas"] = rng.random() < 0.3
    if rng.random() < (0.5 if op == "packrefs" else 0.1):
        # a symbolic reference below refs/ (as `git clone` leaves refs/remotes/origin/HEAD): PackRefs keeps it loose
        c["refs"] = c["refs"] + [{"name": "refs/remotes/origin/HEAD", "sym": "refs/heads/main"}]
    return c


def effective_refs(c):
    loose = {r["name"]: r["ref"] for r in c["refs"] if "ref" in r}
    eff = dict((r["name"], r["ref"]) for r in c["packed"] if r["name"] not in loose)
    eff.update(loose)
    return eff


def coq_str(s):
    return '"%s"' % s


class Main(Suite):
    name = "main"
    go_cmd = "c21"
    coq_imports = "From GoGit Require Import Model.Gc Model.Crash."
    quick_n = 90
    thorough_n = 320
    coq_chunk = 60
    impl_env = {"TMPDIR": "/dev/shm"} if os.path.isdir("/dev/shm") else None

    def gen(self, rng, n, tier):
        cases = []
        nf = 3 if tier == "quick" else 40
        for i in range(n):
            b = pick_weighted(rng, [(6, "mixed"), (2, "packedrefs"), (2, "stale"), (2, "shallow")])
            c = gen_case(rng, b)
            c["fsck"] = i < nf
            # every raw crash state (not only the sampled ones) for the operations with short mutation sequences
            c["all_states"] = tier != "quick" and not c["fsck"] and c["op"] not in ("repack", "packwrite")
            cases.append(c)
        return cases

    # ---- model terms ----
    def graph(self, c):
        def obj(o):
            if o["k"] == "blob":
                return "OBlob"
            if o["k"] == "tree":
                return "OTree %s" % coq_list(["((%d)%%Z, %d%%N)" % (MODES[e["mode"]], e["ref"]) for e in o["entries"]])
            if o["k"] == "commit":
                return "OCommit %d%%N %s" % (o["tree"], coq_list(["%d%%N" % p for p in o["parents"]]))
            return "OTag %d%%N" % o["target"]
        return coq_list(["(%d%%N, %s)" % (i, obj(o)) for i, o in enumerate(c["objects"])])

    def fs(self, c):
        ids = lambda l: coq_list(["%d%%N" % i for i in l])
        es = []
        h = c["head"]
        es.append("(PHead, Whole (DRef (%s)))" % ("RSym %s" % coq_str(h["sym"]) if "sym" in h else "RHash %d%%N" % h["ref"]))
        for r in c["refs"]:
            if "sym" in r:
                es.append("(PRef %s, Whole (DRef (RSym %s)))" % (coq_str(r["name"]), coq_str(r["sym"])))
            else:
                es.append("(PRef %s, Whole (DRef (RHash %d%%N)))" % (coq_str(r["name"]), r["ref"]))
        if c["packed"]:
            es.append("(PPacked, Whole (DPackedRefs %s))" % coq_list(["(%s, %d%%N)" % (coq_str(r["name"]), r["ref"]) for r in c["packed"]]))
        elif c.get("packed_empty"):
            es.append("(PPacked, Empty)")
        for i, o in enumerate(c["objects"]):
            if "loose" in o["at"]:
                es.append("(PLoose %d%%N, Whole (DLoose %d%%N))" % (i, i))
        for p in sorted(c["packs"], key=lambda p: p["name"]):
            l = [i for i, o in enumerate(c["objects"]) if p["name"] in o["at"]]
            if l:
                n = coq_str(p["name"])
                es += ["(PPackF %s XPack, Whole (DPack %s))" % (n, ids(l)), "(PPackF %s XIdx, Whole (DIdx %s))" % (n, ids(l)), "(PPackF %s XRev, Whole DRev)" % n]
                if p.get("promisor"):
                    es.append("(PPackF %s XPromisor, Empty)" % n)
        if c["index"]:
            es.append("(PIndex, Whole (DIndex %s))" % coq_list(["(false, %d%%N)" % e["ref"] for e in c["index"]]))
        es.append("(PConfig, Whole DConfig)")
        if c["shallow"]:
            es.append("(PShallow, Whole (DShallow %s))" % ids(c["shallow"]))
        return coq_list(es)

    def opd(self, c):
        op = c["op"]
        ids = lambda l: coq_list(["%d%%N" % i for i in l])
        val = lambda: ("RSym %s" % coq_str(c["sym"])) if c.get("sym") else "RHash %d%%N" % c["ref"]
        if op == "setobj":
            return "OpSetObj %d%%N" % c["obj"]
        if op == "commit":
            return "OpCommit %s %s (RHash %d%%N)" % (ids(c["commit_objs"]), coq_str(c["name"]), c["ref"])
        if op == "packwrite":
            return "OpPackWrite %s %s" % (ids(c["ids"]), coq_bool(c.get("promisor", False)))
        if op == "setref":
            return "OpSetRef %s (%s)" % (coq_str(c["name"]), val())
        if op == "casref":
            return "OpCasRef %s (%s)" % (coq_str(c["name"]), val())
        if op == "rmref":
            return "OpRmRef %s" % coq_str(c["name"])
        if op == "packrefs":
            return "OpPackRefs"
        if op == "setindex":
            return "OpSetIndex %s" % coq_list(["(false, %d%%N)" % e["ref"] for e in c["newindex"]])
        if op == "setconfig":
            return "OpSetConfig"
        if op == "setshallow":
            return "OpSetShallow %s" % ids(c["ids"])
        if op == "repack":
            return "OpRepack %s %s" % (coq_list([coq_str(p["name"]) for p in c["packs"] if p.get("old")]), coq_bool(c.get("threshold", False)))
        if op == "prune":
            return "OpPrune %s %s" % (ids([i for i, o in enumerate(c["objects"]) if o.get("old")]), coq_bool(c.get("threshold", False)))
        raise ValueError(op)

    def model_expr(self, c):
        return "c21_trace %s %s (%s)" % (self.graph(c), self.fs(c), self.opd(c))

    def verdict_expr(self, c):
        return "c21_verdicts %s %s (%s)" % (self.graph(c), self.fs(c), self.opd(c))

    def nontrivial(self, c):
        return True

    def show(self, c):
        d = {k: v for k, v in c.items() if k != "objects"}
        d["objects"] = ["%d %s %s %s" % (i, o["k"], ",".join(o["at"]) or "absent",
                                         [(e["mode"], e["ref"]) for e in o["entries"]] if o["k"] == "tree" else
                                         ([o.get("tree")] + o.get("parents", []) if o["k"] == "commit" else o.get("target", ""))) for i, o in enumerate(c["objects"])]
        return d

    def oracle(self, ctx, cases, impl, model):
        fails = {}
        # the model's verdicts are needed only where the implementation has a bad crash state (and on a small sample)
        def has_bad(c):
            ex = (impl.get(c["id"]) or {}).get("extra") or {}
            return not ex.get("initial", True) or any(not (v[0] and v[1]) for v in ex.get("verdicts") or [])
        need = [c for k, c in enumerate(cases) if has_bad(c) or k % 10 == 0]
        got = dict(zip([c["id"] for c in need], ctx.coq_eval(self.coq_imports, [self.verdict_expr(c) for c in need], chunk=self.coq_chunk)))
        outs = [got.get(c["id"]) for c in cases]
        self.stats = {"states": 0, "bad_states": 0, "model_conservative": 0, "model_verdicts_missing": 0}
        for c, mo in zip(cases, outs):
            r = impl.get(c["id"])
            if r is None:
                continue        # no reply is a harness fault: reported by the runner as a broken correspondence, not as a property failure
            if r.get("panic"):
                continue
            ex = r.get("extra") or {}
            iv = [("initial", ex.get("initial", True))]
            evs = re.findall(r"\( (\w+)((?: x[0-9a-f]*)+) \)", r["out"])
            for k, (v, e) in enumerate(zip(ex.get("verdicts") or [], evs)):
                what = "%s %s" % (e[0], bytes.fromhex(e[1].split()[0][1:]).decode("utf-8", "replace"))
                iv.append(("inside event %d (%s)" % (k, what), v[0]))
                iv.append(("after event %d (%s)" % (k, what), v[1]))
            mv = None
            if mo is not None and model.get(c["id"]) == r["out"]:
                toks = re.findall(r"true|false", mo)
                if len(toks) == len(iv):
                    mv = [t == "true" for t in toks]
            if mv is None and c["id"] in got:
                self.stats["model_verdicts_missing"] += 1
            self.stats["states"] += ex.get("states", 0)
            unexpected, predicted = [], []
            for k, (label, ok) in enumerate(iv):
                if ok:
                    if mv is not None and not mv[k]:
                        self.stats["model_conservative"] += 1
                    continue
                self.stats["bad_states"] += 1
                (predicted if (mv is not None and not mv[k]) else unexpected).append(label)
            why = "; ".join(ex.get("reasons") or [])[:400]
            if unexpected:
                fails[c["id"]] = "op=%s: crash state %s is not a readable connected repository and the model calls it ok: %s" % (c["op"], unexpected[0], why)
            elif predicted:
                fails[c["id"]] = "window op=%s: crash state %s is not a readable connected repository (as the model predicts): %s" % (c["op"], predicted[0], why)
        return fails

    def finding_class(self, c, reason, reply):
        if reason.startswith("window op="):
            return KNOWN_WINDOW_OPS.get(c["op"])
        return None

    def extra(self, ctx, cases, impl, model):
        ops = {}
        for c in cases:
            ops[c["op"]] = ops.get(c["op"], 0) + 1
        d = dict(getattr(self, "stats", {}))
        d["ops"] = ops
        d["git_fsck_cases"] = sum(1 for c in cases if c.get("fsck"))
        return d


SUITES = [Main()]
