"""C02 Commit and tag codecs are faithful to git (DESIGN.md §4.C02)."""
import random
from vf.core import Suite, coq_hex, coq_list
from vf.gen import pick_weighted
from props import _objgen as G

ID = "C02"
THEOREMS = []
MODEL_FILES = ["ObjLines.v", "Ident.v", "Commit.v", "Tag.v"]
MODELLED = "wip"
TRUSTED = []
ASSUMPTIONS = []
RULE = "wip"


def coq_bytes(h):
    return '(unhex "%s")' % h


def coq_ident(d):
    if d.get("zero"):
        return "ident_zero"
    return "(mk_ident %s %s (%d)%%Z (%d)%%Z)" % (coq_bytes(d["name"]), coq_bytes(d["email"]), d["ts"], d["tz"])


def coq_commit(c):
    return "(mk_commit %s %s %s %s %s %s %s %s %s)" % (
        coq_bytes(c["tree"]), coq_list([coq_bytes(p) for p in c["parents"]]), coq_ident(c["author"]), coq_ident(c["committer"]),
        coq_bytes(c["enc"]), coq_list(["(%s, %s)" % (coq_bytes(k), coq_bytes(v)) for k, v in c["extras"]]),
        coq_bytes(c["sig"]), coq_bytes(c["sig256"]), coq_bytes(c["msg"]))


def coq_tag(t):
    return "(mk_tag %s %s %s %s %s %s %s)" % (coq_bytes(t["target"]), coq_bytes(t["type"].encode().hex()), coq_bytes(t["name"]),
                                               coq_ident(t["tagger"]), coq_bytes(t["sig256"]), coq_bytes(t["msg"]), coq_bytes(t["sig"]))


class Main(Suite):
    name = "main"
    go_cmd = "c02"
    coq_imports = "From GoGit Require Import Model.ObjLines Model.Ident Model.Commit Model.Tag."
    quick_n = 600
    thorough_n = 8000

    def gen(self, rng, n, tier):
        cases = []
        for _ in range(n):
            op = pick_weighted(rng, [(4, "cdec"), (3, "tdec"), (2, "cenc"), (2, "tenc"), (1, "ident")])
            if op == "cdec":
                b = pick_weighted(rng, G.COMMIT_BUCKETS)
                cases.append({"op": op, "bucket": "c-" + b, "raw": G.raw_commit(rng, b).hex()})
            elif op == "tdec":
                b = pick_weighted(rng, G.TAG_BUCKETS)
                cases.append({"op": op, "bucket": "t-" + b, "raw": G.raw_tag(rng, b).hex()})
            elif op == "cenc":
                odd = rng.random() < 0.4
                c = G.commit_struct(rng, odd)
                c.update({"op": op, "bucket": "cs-odd" if odd else "cs-wf"})
                cases.append(c)
            elif op == "tenc":
                odd = rng.random() < 0.4
                c = G.tag_struct(rng, odd)
                c.update({"op": op, "bucket": "ts-odd" if odd else "ts-wf"})
                cases.append(c)
            else:
                odd = rng.random() < 0.8
                cases.append({"op": op, "bucket": "ident-odd" if odd else "ident", "raw": G.ident_line(rng, odd).hex()})
        return cases

    def model_expr(self, c):
        op = c["op"]
        if op == "cdec":
            return 'c02_cdec "%s"' % c["raw"]
        if op == "tdec":
            return 'c02_tdec "%s"' % c["raw"]
        if op == "ident":
            return 'c02_ident "%s"' % c["raw"]
        if op == "cenc":
            return "c02_cenc " + coq_commit(c)
        if op == "tenc":
            return "c02_tenc " + coq_tag(c)


SUITES = [Main()]
