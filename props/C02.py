"""C02 Commit and tag codecs are faithful to git (DESIGN.md §4.C02)."""
import re
from vf.core import Suite, coq_list
from vf.gen import pick_weighted
from props import _objgen as G
from props._gitobj import GitRepo

ID = "C02"
THEOREMS = ["C02_ident_dec_enc", "C02_commit_dec_enc", "C02_commit_enc_dec_bytes", "C02_commit_reencode_refuted",
            "C02_tag_dec_enc", "C02_tag_enc_dec_bytes", "C02_tag_reencode_refuted", "C02_message_matches_git", "C02_ident_matches_git_partial", "C02_ident_matches_git_refuted",
            "C02_fields_match_git_refuted", "C02_commit_fields_match_git_partial", "C02_tag_fields_match_git_partial",
            "C02_tag_fields_match_git_refuted", "C02_extras_match_git_refuted", "C02_extras_match_git_partial",
            "C02_commit_sigs_match_git_partial", "C02_commit_all_fields_match_git_partial"]
MODEL_FILES = ["ObjLines.v", "Ident.v", "Commit.v", "Tag.v"]
MODELLED = ("plumbing/object/commit_scanner.go: the whole stateFn decoder (scanTree, scanParents, scanAuthor, scanCommitter, scanHeaders, "
            "scanPgpCont/scanPgp256Cont/continuationCont, scanExtraCont, finaliseExtra, scanMessage, push-back, sawEncoding, splitHeader, "
            "parseObjectIDHex); commit.go: parseExtraHeader, ExtraHeader.Format, isStandardHeader, Commit.encode (Model/Commit.v); "
            "tag_scanner.go (all states), tag.go: Tag.Decode tail split, Tag.encode, isZeroSignature; signature.go: typeForSignature, "
            "parseSignedBytes, countSignatureBlocks (Model/Tag.v); object.go: Signature.Decode, decodeTimeAndTimeZone, Signature.Encode, "
            "encodeTimeAndTimeZone incl. strconv.ParseInt(10,64) and time.Format(\"-0700\") of a fixed zone (Model/Ident.v). "
            "Input of the decoders is bufio ReadBytes('\\n') line splitting (Model/ObjLines.split_lines). "
            "S: Spec/GitFields.v = git 2.39 parse_commit_buffer, pretty.c parse_commit_header/split_ident_line/show_ident_date, "
            "find_commit_header, parse_tag_buffer, ref-filter find_wholine/copy_name/copy_email/grab_date/find_subpos; "
            "Spec/GitExtra.v = commit.c read_commit_extra_header_lines (gpgsig excluded) and add_extra_header; signatures: Spec/GitSig.v (C03). "
            "Not modelled (exercised only): MemoryObject / bufio / sync pools, time.Time beyond (Unix seconds, zone minutes), "
            "the Hash field, I/O errors")
TRUSTED = [
    "C-impl: Commit.Decode/Encode, Tag.Decode/Encode, Signature.Decode through harness/cmd/c02 vs Model/Commit, Model/Tag, Model/Ident on every case",
    "C-git: Spec/GitFields (S) vs `git log -1 --no-walk --date=raw --format=%T %P %an %ae %ad %cn %ce %cd %e %B` and "
    "`git for-each-ref --format=%(object) %(type) %(tag) %(taggername) %(taggeremail) %(taggerdate:raw) %(contents)` of git 2.39.5 "
    "on the same stored objects (objects git refuses included)",
    "C-git, extra headers: Spec/GitExtra (S) vs `git commit --amend` of git 2.39.5, which re-writes a commit from its own parse "
    "(read_commit_extra_headers + add_extra_header): for root commits the header block of the amended commit must be S's extra headers "
    "as S renders them; go-git's ExtraHeaders are then compared with S's list on the same objects",
    "the known-finding classes are decided by the boolean clauses of Spec/ObjWf (evaluated by Coq) and by whether the pristine model re-encodes the object exactly",
]
ASSUMPTIONS = ["git's fields are what `git log --format` (commits) and `git for-each-ref --format` (tags) print; where git is not "
               "self-consistent (several author/committer lines: pretty.c reports the last, find_commit_header the first) no comparison is made",
               "objects with NUL bytes, and commits that carry both an encoding header and non-ASCII text (git re-encodes them for display), "
               "are compared with the model only, not with git"]
RULE = ("case = stored commit/tag bytes from buckets {canonical, sigs, permuted, dups, oddident, oddhdr, eofhdr, trunc, junk, extras}, or an "
        "in-memory struct {well-formed, odd}, or an identity line; non-trivial = every case (each has a header block); distinct by content")

GIT_TAG_TYPES = ("commit", "tree", "blob", "tag")      # go-git's ParseObjectType also takes ofs-delta / ref-delta
IMPORTS = ("From GoGit Require Import Model.ObjLines Model.Ident Model.Commit Model.Tag "
           "Spec.GitFields Spec.ObjWf Spec.GitExtra.")


def coq_bytes(h):
    return '(unhex "%s")' % h


def coq_ident(d):
    if d.get("zero"):
        return "ident_zero"
    return "(mk_ident %s %s (%d)%%Z (%d)%%Z)" % (coq_bytes(d["name"]), coq_bytes(d["email"]), d["ts"], d["tz"])


def coq_commit(c):
    return "(mk_commit %s %s %s %s %s %s %s %s %s)" % (
        coq_bytes(c["tree"]), coq_list([coq_bytes(p) for p in c["parents"]]), coq_ident(c["author"]), coq_ident(c["committer"]),
        coq_bytes(c["enc"]), coq_list(["(%s, %s)" % (coq_bytes(k), coq_bytes(v)) for k, v in c["extras"]]),
        coq_bytes(c["sig"]), coq_bytes(c["sig256"]), coq_bytes(c["msg"]))


def coq_tag(t):
    return "(mk_tag %s %s %s %s %s %s %s)" % (coq_bytes(t["target"]), coq_bytes(t["type"].encode().hex()), coq_bytes(t["name"]),
                                               coq_ident(t["tagger"]), coq_bytes(t["sig256"]), coq_bytes(t["msg"]), coq_bytes(t["sig"]))


def parse_out(s):
    """render grammar -> nested python lists; x.. -> bytes, numbers -> int, symbols -> str"""
    toks = s.split()
    pos = 0

    def item():
        nonlocal pos
        t = toks[pos]
        pos += 1
        if t == "(":
            l = []
            while toks[pos] != ")":
                l.append(item())
            pos += 1
            return l
        if t.startswith("x"):
            return bytes.fromhex(t[1:])
        if re.fullmatch(r"-?\d+", t):
            return int(t)
        return t
    return item()


def fmt_zone(tz):
    a = abs(tz)
    return b"%s%02d%02d" % (b"-" if tz < 0 else b"+", a // 60, a % 60)


def ident_fields(d):
    """case ident -> [name, email, ts, zone] as the harness renders a Signature"""
    if d.get("zero"):
        return [b"", b"", G.ZERO_TS, b"+0000"]
    return [bytes.fromhex(d["name"]), bytes.fromhex(d["email"]), d["ts"], fmt_zone(d["tz"])]


def go_date(idn):
    ts, tz = idn[2], idn[3]
    return b"" if ts == G.ZERO_TS and tz == b"+0000" else b"%d %s" % (ts, tz)


def person_class(prefix, kind, position, person, date):
    """class of an ident mismatch from the Spec/ObjWf clauses; None = not explained by a known divergence"""
    if not position:
        return prefix + "-person-position"
    if kind == "ident":
        return None if person else prefix + "-ident-person"
    if not date:
        return prefix + "-ident-date"
    return None if person else prefix + "-ident-person"


def cmp_commit_git(f, g, raw, cl):
    """decoded commit fields vs git's report -> [(what, class)]"""
    probs = []
    tree, parents, au, co, enc, extras, sig, sig256, msg = f
    parents_ok, position, ap, ad, cp, cd, encok = cl
    hdr = raw.split(b"\n\n", 1)[0]
    text_ok = not (any(b >= 0x80 for b in raw) and re.search(rb"^encoding ", hdr, re.M))
    if tree.hex().encode() != g["tree"]:
        probs.append(("tree", None))
    if [p.hex().encode() for p in parents] != g["parents"]:
        probs.append(("parents", None if parents_ok else "commit-parent-block"))
    for who, idn, k, pk, dk in (("author", au, "a", ap, ad), ("committer", co, "c", cp, cd)):
        if len(re.findall(rb"^" + who.encode() + rb" ", hdr, re.M)) > 1:
            continue        # git itself is ambiguous here: pretty.c reports the last line, find_commit_header the first
        if text_ok and (idn[0] != g[k + "n"] or idn[1] != g[k + "e"]):
            probs.append((who + "-ident", person_class("commit", "ident", position, pk, dk)))
        if go_date(idn) != g[k + "d"]:
            probs.append((who + "-date", person_class("commit", "date", position, pk, dk)))
    if (enc if enc != b"UTF-8" else b"") != (g["enc"] if g["enc"] != b"UTF-8" else b""):
        probs.append(("encoding", None if encok else "commit-encoding-bare"))
    if text_ok and b"\n\n" in raw and msg + b"\n" != g["body"]:
        probs.append(("message", None))
    return probs


def cmp_tag_git(f, g, raw, cl):
    probs = []
    target, typ, name, tg, sig256, msg, sig = f
    position, person, date = cl
    if target.hex().encode() != g["object"]:
        probs.append(("object", None))
    if typ != g["type"]:
        probs.append(("type", None))
    if name != g["tag"]:
        probs.append(("name", None))
    if tg[0] != g["tn"] or b"<" + tg[1] + b">" != (g["te"] or b"<>"):
        probs.append(("tagger-ident", person_class("tag", "ident", position, person, date)))
    if go_date(tg) != g["td"]:
        probs.append(("tagger-date", person_class("tag", "date", position, person, date)))
    if (msg + sig).lstrip(b"\n") + b"\n" != g["contents"]:
        probs.append(("message", None))
    return probs


def reencode_class(kind, raw):
    """shape of a stored object that go-git normalises when re-encoding (by design)"""
    hdr = raw.split(b"\n\n", 1)[0]
    if re.search(rb"^(author|committer|tagger) [^\n]*> \d+ -0000$", hdr, re.M):
        return kind + "-reencode-zone-minus-0000"
    if kind == "commit" and re.search(rb"^encoding UTF-8$", hdr, re.M):
        return "commit-reencode-explicit-utf8"
    return kind + "-reencode-noncanonical"


def verdict(probs):
    if not probs:
        return None
    classes = [c for _, c in probs]
    cls = None if None in classes else classes[0]
    return "mismatch %s [class=%s]" % (", ".join("%s(%s)" % (w, c or "UNEXPLAINED") for w, c in probs), cls)


class Main(Suite):
    name = "main"
    go_cmd = "c02"
    coq_imports = IMPORTS
    quick_n = 380
    thorough_n = 3000

    def gen(self, rng, n, tier):
        cases = []
        for _ in range(n):
            op = pick_weighted(rng, [(4, "cdec"), (3, "tdec"), (2, "cenc"), (2, "tenc"), (1, "ident")])
            if op == "cdec":
                b = pick_weighted(rng, G.COMMIT_BUCKETS)
                cases.append({"op": op, "bucket": "c-" + b, "raw": G.raw_commit(rng, b).hex()})
            elif op == "tdec":
                b = pick_weighted(rng, G.TAG_BUCKETS)
                cases.append({"op": op, "bucket": "t-" + b, "raw": G.raw_tag(rng, b).hex()})
            elif op == "cenc":
                odd = rng.random() < 0.4
                c = G.commit_struct(rng, odd)
                c.update({"op": op, "bucket": "cs-odd" if odd else "cs-wf"})
                cases.append(c)
            elif op == "tenc":
                odd = rng.random() < 0.4
                c = G.tag_struct(rng, odd)
                c.update({"op": op, "bucket": "ts-odd" if odd else "ts-wf"})
                cases.append(c)
            else:
                odd = rng.random() < 0.8
                cases.append({"op": op, "bucket": "ident-odd" if odd else "ident", "raw": G.ident_line(rng, odd).hex()})
        return cases

    def model_expr(self, c):
        op = c["op"]
        if op == "cdec":
            return 'c02_cdec "%s"' % c["raw"]
        if op == "tdec":
            return 'c02_tdec "%s"' % c["raw"]
        if op == "ident":
            return 'c02_ident "%s"' % c["raw"]
        if op == "cenc":
            return "c02_cenc " + coq_commit(c)
        if op == "tenc":
            return "c02_tenc " + coq_tag(c)

    def nontrivial(self, c):
        return True

    # ------------------------------------------------------------ git + spec side
    def sides(self, ctx, cases, impl):
        """-> (git reports, Spec/ObjWf clauses or wf flags, S outputs), computed once per case list"""
        if getattr(self, "_cache", None) and self._cache[0] is cases:
            return self._cache[1]
        exprs, keys = [], []
        for c in cases:
            op = c["op"]
            if op == "cdec":
                exprs.append('OList [c02_agree_commit "%s"; c02_spec_commit "%s"]' % (c["raw"], c["raw"]))
                keys.append(("both", c["id"]))
            elif op == "tdec":
                exprs.append('OList [c02_agree_tag "%s"; c02_spec_tag "%s"]' % (c["raw"], c["raw"]))
                keys.append(("both", c["id"]))
            elif op == "cenc":
                exprs.append("c02_wf_commit " + coq_commit(c))
                keys.append(("wf", c["id"]))
            elif op == "tenc":
                exprs.append("c02_wf_tag " + coq_tag(c))
                keys.append(("wf", c["id"]))
        outs = ctx.coq_eval(IMPORTS, exprs)
        cl, spec = {}, {}
        for (k, i), o in zip(keys, outs):
            if k == "both":
                if o is None:
                    spec[i] = None
                    continue
                mm = re.match(r"^\( (\( (?:true |false )+\)) (.*) \)$", o)
                cl[i] = [x == "true" for x in parse_out(mm.group(1))]
                spec[i] = mm.group(2)
            elif o is not None:
                cl[i] = (o == "true") if k == "wf" else [x == "true" for x in parse_out(o)]
        # git: objects S expects git to parse are asked in one batch (git's own answers either way, see _gitobj)
        repo = GitRepo(ctx.tmp, "c02ref%d" % len(cases))
        git = {}
        cap = 30 if ctx.tier == "quick" else None      # objects git is expected to refuse are asked one by one: sample in the quick tier
        cs = [c for c in cases if c["op"] == "cdec"]
        exp = [bool(spec.get(c["id"])) and spec[c["id"]].startswith("( ok") for c in cs]
        for c, o in zip(cs, repo.log_fields_many(repo.store("commit", [bytes.fromhex(c["raw"]) for c in cs]), exp, cap)):
            git[c["id"]] = o
        ts = [c for c in cases if c["op"] == "tdec"]
        exp = [bool(spec.get(c["id"])) and spec[c["id"]].startswith("( ok") for c in ts]
        for c, o in zip(ts, repo.tag_fields_many(repo.store("tag", [bytes.fromhex(c["raw"]) for c in ts]), exp, "d", cap)):
            git[c["id"]] = o
        # encoded structs: what git reports for the bytes go-git wrote
        ce = [(c, parse_out(impl[c["id"]]["out"])) for c in cases if c["op"] == "cenc" and c["id"] in impl]
        ce = [(c, o[1]) for c, o in ce if o[0] == "ok"]
        for (c, b), o in zip(ce, repo.log_fields_many(repo.store("commit", [b for _, b in ce]), [bool(cl.get(c["id"])) for c, _ in ce])):
            git[c["id"]] = o
        te = [(c, parse_out(impl[c["id"]]["out"])) for c in cases if c["op"] == "tenc" and c["id"] in impl]
        te = [(c, o[1]) for c, o in te if o[0] == "ok"]
        for (c, b), o in zip(te, repo.tag_fields_many(repo.store("tag", [b for _, b in te]), [bool(cl.get(c["id"])) and c["type"] in GIT_TAG_TYPES for c, _ in te], "e")):
            git[c["id"]] = o
        # well-formed structs: the agreement clauses of the bytes go-git wrote (a name ending in TAB round-trips but git strips it)
        exprs2, keys2 = [], []
        for c, b in ce:
            if cl.get(c["id"]):
                exprs2.append('c02_agree_commit "%s"' % b.hex())
                keys2.append(c["id"])
        for c, b in te:
            if cl.get(c["id"]):
                exprs2.append('c02_agree_tag "%s"' % b.hex())
                keys2.append(c["id"])
        self._enc_clauses = {}
        for i, o in zip(keys2, ctx.coq_eval(IMPORTS, exprs2)):
            if o is not None:
                self._enc_clauses[i] = [x == "true" for x in parse_out(o)]
        # extra headers: root commits that go-git decodes and git parses are amended by git (which re-writes the extra headers
        # it parsed); S (Spec/GitExtra) must render exactly that header block, then go-git's list is compared with S's
        self._extras = {}
        cand = []
        for c in cs:
            raw = bytes.fromhex(c["raw"])
            hdr = raw.split(b"\n\n", 1)[0]
            r = impl.get(c["id"])
            if r is None or not r["out"].startswith("( ok") or not isinstance(git.get(c["id"]), dict):
                continue
            if b"\0" in raw or any(b >= 0x80 for b in raw) or re.search(rb"^parent ", hdr, re.M):
                continue
            cand.append(c)
        if ctx.tier == "quick":
            cand.sort(key=lambda c: 0 if str(c.get("bucket", "")).startswith("corpus-") else 1)      # finding witnesses first (stable)
            cand = cand[:60]
        if cand:
            outs = ctx.coq_eval(IMPORTS, ['OList [c02_extras_guard "%s"; c02_spec_extras "%s"]' % (c["raw"], c["raw"]) for c in cand])
            am = repo.amend_many(repo.store("commit", [bytes.fromhex(c["raw"]) for c in cand]))
            for c, o, a in zip(cand, outs, am):
                if o is None:
                    self._extras[c["id"]] = ("spec-failed", None, None)
                    continue
                shape, (lst, rend) = parse_out(o)
                shape = [x == "true" for x in shape]
                if a is None:
                    self._extras[c["id"]] = ("git-refuses", shape, lst)
                    continue
                mm = re.match(rb"tree [0-9a-f]{40}\nauthor [^\n]*\ncommitter N <e@f> 1700000000 \+0000\n", a)
                ok = mm is not None and a[mm.end():].startswith(rend + b"\n")
                self._extras[c["id"]] = ("ok" if ok else "spec-mismatch", shape, lst)
                if not ok:
                    ctx.notes.append("spec_mismatch S vs git (extra headers) on %s: S renders %r, git commit --amend wrote %r" % (c["raw"], rend[:200], a[:300]))
        self._cache = (cases, (git, cl, spec))
        return self._cache[1]

    def oracle(self, ctx, cases, impl, model):
        """the property on the implementation: byte-exact re-encoding of canonical objects, decoded fields == git's
        report, decode(encode s) == s for well-formed structs (and git reads the encoded bytes the same way)"""
        fails = {}
        git, cl, spec = self.sides(ctx, cases, impl)
        for c in cases:
            i, op = c["id"], c["op"]
            r = impl.get(i)
            if r is None:
                fails[i] = "no reply"
                continue
            if op == "ident" or i not in cl:
                continue
            o = parse_out(r["out"])
            m = parse_out(model[i]) if model.get(i) else None
            g = git.get(i)
            if g == "unasked":
                g, asked = None, False
            else:
                asked = True
            probs = []
            if op in ("cdec", "tdec"):
                raw = bytes.fromhex(c["raw"])
                kind = "commit" if op == "cdec" else "tag"
                if o[0] != "ok":
                    if asked and g is not None and b"\0" not in raw:
                        probs.append(("refuses (%s) an object git parses" % o[1],
                                      "commit-parent-block" if op == "cdec" and not cl[i][0] else None))
                else:
                    if g is not None and b"\0" not in raw:
                        probs += cmp_commit_git(o[1], g, raw, cl[i]) if op == "cdec" else cmp_tag_git(o[1], g, raw, cl[i])
                    ex = self._extras.get(i)
                    if op == "cdec" and ex and ex[0] == "ok":
                        want = [[k, v.rstrip(b"\n")] for k, v in ex[2]]
                        if o[1][5] != want:
                            guard, term, spaced = ex[1]
                            cls = None if guard else "commit-extra-unterminated" if not term else \
                                "commit-extra-bare-header" if not spaced else "commit-extra-stray-continuation"
                            probs.append(("extra-headers", cls))
                    if o[2] != raw:
                        # known only where the pristine model shows the same, by-design, normalisation
                        pristine_exact = m is not None and m[0] == "ok" and m[2] == raw
                        probs.append(("re-encoded bytes differ", None if pristine_exact or m is None else reencode_class(kind, raw)))
            elif cl[i]:        # well-formed struct
                want = self.struct_fields(c)
                if o[0] != "ok" or o[2][0] != "ok":
                    probs.append(("well-formed struct does not decode after encoding", None))
                else:
                    if o[2][1] != want:
                        probs.append(("decode(encode s) != s", None))
                    if op == "tenc" and c["type"] not in GIT_TAG_TYPES:
                        pass
                    elif not asked:
                        pass
                    elif g is None:
                        probs.append(("git does not parse the encoding of a well-formed struct", None))
                    elif i not in self._enc_clauses:
                        pass
                    elif op == "cenc":
                        probs += cmp_commit_git(want, g, o[1], self._enc_clauses[i])
                    else:
                        probs += cmp_tag_git(want, g, o[1], self._enc_clauses[i])
            why = verdict(probs)
            if why:
                fails[i] = why
        return fails

    def struct_fields(self, c):
        if c["op"] == "cenc":
            return [bytes.fromhex(c["tree"]), [bytes.fromhex(p) for p in c["parents"]], ident_fields(c["author"]), ident_fields(c["committer"]),
                    bytes.fromhex(c["enc"]), [[bytes.fromhex(k), bytes.fromhex(v)] for k, v in c["extras"]],
                    bytes.fromhex(c["sig"]), bytes.fromhex(c["sig256"]), bytes.fromhex(c["msg"])]
        return [bytes.fromhex(c["target"]), c["type"].encode(), bytes.fromhex(c["name"]), ident_fields(c["tagger"]),
                bytes.fromhex(c["sig256"]), bytes.fromhex(c["msg"]), bytes.fromhex(c["sig"])]

    def finding_class(self, case, reason, reply):
        m = re.search(r"\[class=([a-z0-9-]+)\]", reason)
        return m.group(1) if m and m.group(1) != "None" else None

    def extra(self, ctx, cases, impl, model):
        """C-git: S (Spec/GitFields) vs the git binary on the stored objects"""
        git, cl, spec = self.sides(ctx, cases, impl)
        bad = compared = outside = wf = 0
        # tags on which git itself is undefined: for-each-ref %(contents) runs parse_signature -> remove_signature, which has two
        # slots; a third gpgsig region in front of an inline signature makes git 2.39 abort (C03's S calls this "undefined")
        dead = [c for c in cases if c["op"] == "tdec" and git.get(c["id"]) is None and str(spec.get(c["id"]) or "").startswith("( ok")]
        undefined = set()
        if dead:
            outs = ctx.coq_eval("From GoGit Require Import Spec.GitSig.", ['c03_spec_tag "%s"' % c["raw"] for c in dead])
            undefined = {c["id"] for c, o in zip(dead, outs) if o == "undefined"}
        for c in cases:
            i, op = c["id"], c["op"]
            if op in ("cenc", "tenc"):
                wf += 1 if cl.get(i) else 0
            if op not in ("cdec", "tdec") or i not in spec:
                continue
            s, g = spec[i], git.get(i)
            if g == "unasked":
                continue
            if s is None:
                bad += 1
                ctx.notes.append("spec evaluation failed on %s" % c["raw"][:80])
                continue
            if s == "outside" or i in undefined:
                outside += 1
                continue
            compared += 1
            if g is None:
                want = "refused"
            elif op == "cdec":
                body = "( some x%s )" % g["body"][:-1].hex() if b"\n\n" in bytes.fromhex(c["raw"]) else None
                want = "( ok x%s ( %s) x%s x%s x%s x%s x%s x%s x%s %s )" % (
                    g["tree"].hex(), "".join("x%s " % p.hex() for p in g["parents"]), g["an"].hex(), g["ae"].hex(), g["ad"].hex(),
                    g["cn"].hex(), g["ce"].hex(), g["cd"].hex(), g["enc"].hex(), body or "none")
                raw = bytes.fromhex(c["raw"])
                hdr = raw.split(b"\n\n", 1)[0]
                if any(b >= 0x80 for b in raw) and re.search(rb"^encoding ", hdr, re.M):
                    compared -= 1       # git re-encodes the text to UTF-8 for display
                    continue
            else:
                td = "( some x%s )" % g["td"].hex()
                want = "( ok x%s x%s x%s x%s x%s %s x%s )" % (g["object"].hex(), g["type"].hex(), g["tag"].hex(), g["tn"].hex(), g["te"].hex(),
                                                             td, g["contents"][:-1].hex())
                if "none" in s.split()[7:8]:
                    s = re.sub(r"^(\( ok (?:x\S* ){5})none", lambda mm: mm.group(1) + td, s)   # date outside the transcription
                    outside += 1
            if s != want:
                bad += 1
                ctx.notes.append("spec_mismatch S vs git on %s %s: S=%s git=%s" % (op, c["raw"], s[:300], want[:300]))
        exs = getattr(self, "_extras", {})
        bad += sum(1 for v in exs.values() if v[0] in ("spec-mismatch", "spec-failed"))
        return {"spec_vs_git_cases": compared, "spec_mismatches": bad, "spec_outside_transcription": outside, "wellformed_structs": wf,
                "extras_amended_by_git": sum(1 for v in exs.values() if v[0] == "ok"),
                "extras_git_refuses_amend": sum(1 for v in exs.values() if v[0] == "git-refuses"),
                "extras_guard_true": sum(1 for v in exs.values() if v[0] == "ok" and v[1][0]),
                "clause_vectors": self.clause_stats(cases, cl)}

    def clause_stats(self, cases, cl):
        """how often each agreement clause is true / false among the decoded objects (coverage of the clause boundaries)"""
        st = {}
        for c in cases:
            v = cl.get(c["id"])
            if c["op"] not in ("cdec", "tdec") or not isinstance(v, list):
                continue
            names = ["parents", "position", "aperson", "adate", "cperson", "cdate", "encoding"] if c["op"] == "cdec" else ["t-position", "t-person", "t-date"]
            for n, b in zip(names, v):
                k = "%s=%s" % (n, "T" if b else "F")
                st[k] = st.get(k, 0) + 1
        return st


SUITES = [Main()]
