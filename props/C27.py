"""C27 Status agrees with git status (DESIGN.md §4.C27)."""
from vf.core import Suite, coq_N, coq_bool, coq_list
from props import porc_gen as pg

ID = "C27"
THEOREMS = [
    "C27_status_pointwise", "C27_status_eq_partial",
    "C27_sha256_refuted", "C27_ita_refuted", "C27_filemode_refuted", "C27_staged_delete_refuted",
    "C27_typechange_refuted", "C27_samestat_refuted", "C27_info_exclude_refuted",
    "C27_shortcut_sound_partial", "C27_shortcut_sound_refuted",
    "C27_ts_compare", "C27_shortcut_sound_ns_partial", "C27_shortcut_seconds_refuted",
    "C27_walk_flat", "C27_status_eq", "C27_index_tree", "C27_status_eq_entries", "C27_walks_agree_small",
    "C27_skip_staged_refuted", "C27_skip_dir_untracked_refuted", "C27_skip_names_unrepaired_refuted",
]
MODEL_FILES = ["Status.v", "StatTime.v", "StatusTrie.v", "DiffTree.v", "Gitignore.v"]
MODELLED = ("worktree_status.go Worktree.status from (HEAD tree, index tree, worktree tree): the three noder trees, the "
            "merkletrie walk (Model/DiffTree.v recursive merge for the theorems; the two-iterator loop of difftree.go / "
            "doubleiter.go / iter.go with the Skip() rules of skip-worktree entries for the correspondence, both "
            "evaluated and compared on every case), mindex.NewRootNode (tree inferred from the entry paths, cross-checked), "
            "the ignore verdict computed by the C49 model (Model/Gitignore.v: Scope / matcher / wildmatch) from the "
            ".gitignore files of the case, time stamps with nanoseconds (Model/StatTime.v); and, as before: "
            "Worktree.status (the fold of the two change lists into the Status map, nameFromAction, "
            "Untracked -> Unmodified promotion), diffTreeIsEquals over the noder hashes of utils/merkletrie/index/node.go "
            "(Hash, upholdExecutableBit) and utils/merkletrie/filesystem/node.go (calculateHash with format.SHA1, "
            "metadataMatches incl. size mod 2^32 and the racy check, shouldSkipIgnored for tracked entries) on flattened "
            "path maps (Model/Status.v); spec: git's porcelain v1 XY records per path (Spec/GitStatus.v); not modelled: "
            "submodules, autocrlf hashing (C31), the lazy reading of .gitignore files (resolveScope; the verdict is the same), "
            "rename detection (disabled on the git side)")
TRUSTED = [
    "C-impl: Worktree.Status on repositories built by harness/porc with the git binary vs Model/Status on every case",
    "oracle: `git status --porcelain=v1 -z --untracked-files=all --ignored=no --no-renames` on the same repository",
    "C-git: Spec/GitStatus vs the same git output on every case (spec_mismatches)",
    "python gitignore evaluator for the generated pattern grammar (props/porc_gen.py): only used to classify failing cases",
]
ASSUMPTIONS = [
    "SHA-1 and SHA-256 object ids are injective on the generated contents (content identity stands for the id)",
    "git's own stat shortcut is sound on the generated histories (it also compares ctime/inode; every rewritten file gets a fresh inode change time)",
]
RULE = ("case = flattened (HEAD, index, worktree) maps over a 23-path universe with file/dir conflicts, modes f/x/symlink, "
        "staged and unstaged edits, touches, same-size edits with restored mtime, racy index time, intent-to-add entries, "
        "nested .gitignore / info/exclude (the verdict computed by the C49 model from the files' contents), empty directories, "
        "core.fileMode, object format, explicit (seconds, nanoseconds) mtimes of a same-size rewrite against the entry's and the "
        "index file's (equal / same second / other second x older / equal / newer), skip-worktree entries (file gone, kept, "
        "changed; staged changes under the flag; a whole directory flagged; neighbours sorting before / after at other depths; "
        "a flagged .gitignore); non-trivial = some path differs "
        "between two of the maps; distinct by content")

MODE = {"f": 0, "x": 1, "l": 2}
NS = 10 ** 9
T1 = (pg.T0 + 1) * NS          # model time stamps are nanosecond counts (Model/StatTime.v: ts_ns)


def ns(t):
    return t[0] * NS + t[1]


def sof(c):
    """state of a case, with the effect of its "stamp" step (explicit sub-second time stamps of one tracked file)"""
    st = pg.state_of(c)
    sp = c.get("stamp")
    if sp:
        m = st["index"][sp["p"]][0]
        st["wt"][sp["p"]] = (m, bytes.fromhex(sp["c"]), "stamp")
        st["stamp"] = sp
    return st


# the stamp grid: mtime of the rewritten file relative to the entry's (equal to the nanosecond / same second, later or
# earlier nanoseconds / another second) x mtime of .git/index relative to the file's
EMT = (pg.T0 + 7, 500)
WMTS = [EMT, (EMT[0], 900), (EMT[0], 100), (EMT[0] + 2, 500)]
IMTS = [lambda w: (w[0], w[1] - 50), lambda w: w, lambda w: (w[0], w[1] + 50), lambda w: (w[0] + 5, 0), lambda w: (w[0] - 3, 0)]
STAMPS = [(w, f(w)) for w in WMTS for f in IMTS]


MODENUM = {"f": 33188, "x": 33261, "l": 40960}


def nest(flat):
    """flat: sorted list of (path string, mode number, data list) -> Coq list of tin (StatusTrie.tin)"""
    def build(items):
        out, i = [], 0
        while i < len(items):
            comps, m, d = items[i]
            if len(comps) == 1:
                out.append('TF "%s" %s %s' % (comps[0].encode().hex(), coq_N(m), coq_list([coq_N(x) for x in d])))
                i += 1
            else:
                j, sub = i, []
                while j < len(items) and len(items[j][0]) > 1 and items[j][0][0] == comps[0]:
                    sub.append((items[j][0][1:], items[j][1], items[j][2]))
                    j += 1
                out.append('TD "%s" %s' % (comps[0].encode().hex(), build(sub)))
                i = j
        return coq_list(["(%s)" % x for x in out])
    # group by first component whatever the byte order of '/' (a, a-b, a/c): sort by component lists
    return build(sorted([(p.split("/"), m, d) for p, m, d in flat], key=lambda x: [c.encode() for c in x[0]]))


def idx_only_ignores(st):
    """.gitignore entries flagged skip-worktree whose file is absent from the worktree: path -> staged content"""
    return {q: c for q, (m, c, f) in st["index"].items()
            if f == "skip" and m != "l" and q.rsplit("/", 1)[-1] == ".gitignore" and q not in st["wt"]
            and not any(x.startswith(q + "/") for x in st["wt"])}


def git_ignored(st, p):
    """git's verdict: as pg.ignored, with the skip-worktree .gitignore entries read from the index"""
    extra = idx_only_ignores(st)
    if not extra:
        return pg.ignored(st, p)
    st2 = dict(st)
    st2["wt"] = dict(st["wt"])
    for q, c in extra.items():
        st2["wt"][q] = ("f", c, "")
    return pg.ignored(st2, p)


def model_parts(st):
    """-> (tstate expression, index entries expression) of Model/StatusTrie.v"""
    cids = {b"": 0}

    def cid(c):
        return cids.setdefault(c, len(cids))
    fmt = 1 if st["fmt"] == "sha256" else 0
    sp = st.get("stamp")
    idxtime = T1 if st["racy"] else T1 + 10 ** 6 * NS
    if sp:
        idxtime = ns(sp["imt"])
    head = [(p, MODENUM[m], [fmt, cid(c)]) for p, (m, c) in sorted(st["head"].items())]
    index, skip = [], []
    for p, (m, c, f) in sorted(st["index"].items()):
        if f == "ita":
            index.append((p, MODENUM[m], [fmt, 0, 0, 1, 1]))
        else:
            emt = ns(sp["emt"]) if (sp and sp["p"] == p) else T1
            index.append((p, MODENUM[m], [fmt, cid(c), len(c), emt, 0]))
        if f == "skip":
            skip.append(p)
    wt, ign = [], []
    for p, (m, c, t) in sorted(st["wt"].items()):
        s = st["index"].get(p)
        kept = s is not None and s[0] == m and s[1] == c and t == ""
        mt = T1 if (kept or t == "samestat") else (T1 + 100 * NS if t == "touch" else T1 + 50 * NS)
        if t == "stamp":
            mt = ns(sp["wmt"])
        wt.append((p, MODENUM[m], [cid(c), len(c), mt]))
        if p.rsplit("/", 1)[-1] == ".gitignore" and m != "l":
            d = p.split("/")[:-1]
            ign.append("(%s, \"%s\")" % (coq_list(['"%s"' % x.encode().hex() for x in d]), c.hex()))
    excl = 'Some "%s"' % st["exclude"].hex() if st["exclude"] else "None"
    ign_idx = []
    for q, cont in idx_only_ignores(st).items():
        ign_idx.append("(%s, \"%s\")" % (coq_list(['"%s"' % x.encode().hex() for x in q.split("/")[:-1]]), cont.hex()))
    ts = "(mk_tstate %s %s %s %s %s %s %s %s %s (%s))" % (
        coq_N(fmt), coq_bool(st["filemode"]), coq_N(idxtime), nest(head), nest(index), nest(wt),
        coq_list(['"%s"' % q.encode().hex() for q in skip]), coq_list(ign), coq_list(ign_idx), excl)
    # idx.Entries order: by path bytes
    ents = coq_list(["(%s, %s, %s)" % (coq_list(['"%s"' % x.encode().hex() for x in p.split("/")]), coq_N(m),
                                       coq_list([coq_N(x) for x in d]))
                     for p, m, d in sorted(index, key=lambda e: e[0].encode())])
    return ts, ents


def model_inputs(st):
    ts, ents = model_parts(st)
    return "%s (mk_entries %s)" % (ts, ents)


def deviation(st, p):
    """the known-finding class (if any) that applies to path p of the state"""
    h, i, w = st["head"].get(p), st["index"].get(p), st["wt"].get(p)
    link = lambda e: e is not None and e[0] == "l"
    if i is not None and i[2] == "ita":
        return "ita"
    # skip-worktree entries (sparse checkout)
    def all_skip_dir(q):
        comps = q.split("/")
        for k in range(1, len(comps)):
            d = "/".join(comps[:k])
            below = [e for x, e in st["index"].items() if x.startswith(d + "/")]
            if below and all(e[2] == "skip" for e in below):
                return True
            if st["index"].get(d, ("", b"", ""))[2] == "skip":
                return True       # a flagged file entry whose path is a directory now: passed over with all it holds
        return False
    if i is not None and i[2] == "skip" and (h is None or h[:2] != i[:2]):
        return "skip-staged-invisible"
    if i is None and h is not None and all_skip_dir(p) and (w is None or pg.ignored(st, p)):
        return "skip-staged-invisible"
    if i is None and w is not None and all_skip_dir(p) and not pg.ignored(st, p):
        return "skip-dir-hides-untracked"
    if i is None and w is not None and git_ignored(st, p) != pg.ignored(st, p):
        return "skip-gitignore-from-index"
    if i is None and w is not None and pg.ignored(st, p, False) != pg.ignored(st, p, True):
        return "info-exclude"
    if h is not None and i is None and w is not None and not pg.ignored(st, p):
        return "staged-delete-untracked"
    if (h is not None and i is not None and link(h) != link(i)) or (i is not None and w is not None and link(i) != link(w)):
        return "typechange"
    if i is not None and w is not None:
        kept = i[0] == w[0] and i[1] == w[1] and w[2] == ""
        if w[2] == "stamp":
            sp = st["stamp"]
            # same size, mtime restored to the nanosecond, index file newer: the metadata shortcut applies
            if ns(sp["wmt"]) == ns(sp["emt"]) and ns(sp["wmt"]) < ns(sp["imt"]) and len(i[1]) == len(w[1]) and i[1] != w[1]:
                return "samestat"
            return None
        if not st["filemode"] and w[0] == "x":
            return "filemode-false-exec"
        if w[2] == "samestat" and not st["racy"] and i[0] == w[0] and len(i[1]) == len(w[1]):
            return "samestat"
        if st["fmt"] == "sha256" and i[1] == w[1] and (not kept or st["racy"]):
            return "sha256-unchanged-modified"
    return None


def parse_recs(recs):
    out = {}
    for r in recs or []:
        out.setdefault(r[3:], []).append(r[:2])
    return {p: sorted(v) for p, v in out.items()}


class Main(Suite):
    name = "main"
    go_cmd = "c27"
    coq_imports = "From GoGit Require Import Model.Status Model.StatusTrie Spec.GitStatus Spec.GitStatusTrie."
    quick_n = 170
    thorough_n = 500
    coq_chunk = 100

    def gen(self, rng, n, tier):
        cases = []
        feats = ["ita", "typechange", "samestat", "sha256", "filemode", "stagedel"]
        j = 0
        for k in range(n):
            # at most one deviation-prone ingredient per case, so that every disagreement has one cause
            r = rng.random()
            special = k % 11 == 5 or k % 6 == 3 or k % 13 == 7 or k % 6 == 1      # the dedicated buckets below
            f = ("ignore", "racy") if r < 0.45 else ("ignore", "racy", feats[j % len(feats)])
            if not special:
                j += 1
            st = pg.gen_state(rng, features=f)
            c = pg.recipe(st)
            c["bucket"] = "plain" if len(f) == 2 else f[2]
            if k % 11 == 5:
                # racily clean entry: same size, same mtime as staged, index not newer than the file -> must be hashed
                a, b = rng.choice([(b"11\n", b"22\n"), (b"1\n", b"2\n"), (b"x", b"y")])
                m = rng.choice(["f", "x"])
                st = {"fmt": "sha1", "filemode": True, "racy": True, "exclude": b"", "dirs": [],
                      "head": {"r": (m, a), "k": ("f", b"keep\n")}, "index": {"r": (m, a, ""), "k": ("f", b"keep\n", "")},
                      "wt": {"r": (m, b, "samestat"), "k": ("f", b"keep\n", "")}}
                c = pg.recipe(st)
                c["bucket"] = "racy-samestat"
            if k % 6 == 3:
                # skip-worktree entries: file gone (the sparse-checkout shape), still there, or changed; staged
                # changes under the flag; untracked neighbours sorting before / after, at other depths
                st = pg.gen_state(rng, features=("ignore", "racy"))
                st["exclude"] = b""
                st["wt"].pop("q.ex", None)
                cand = sorted(st["index"])
                shape = (k // 6) % 4
                if shape == 3 or not cand:
                    # a skipped file next to unrelated files on both sides, and below a shared directory
                    a, b2 = b"1\n", b"2\n"
                    st["head"] = {"d/m": ("f", a), "e": ("f", a), "d2/k": ("f", a)}
                    st["index"] = {"d/m": ("f", a, ""), "e": ("f", rng.choice([a, b2]), "skip"), "d2/k": ("f", a, "skip")}
                    st["wt"] = {"d/m": ("f", a, "")}
                    for q in rng.sample(["b", "d/e", "d/z", "e", "f", "d2/k", "d2/u", "d/a"], rng.choice([2, 3, 4])):
                        st["wt"][q] = ("f", b2, "")
                    st["dirs"] = []
                else:
                    for q in rng.sample(cand, min(len(cand), rng.choice([1, 2, 3]))):
                        m, cont, _ = st["index"][q]
                        st["index"][q] = (m, cont, "skip")
                        r = rng.random()
                        if r < 0.6:
                            st["wt"].pop(q, None)
                            for x in [x for x in st["wt"] if x.startswith(q + "/")]:
                                del st["wt"][x]
                        elif r < 0.8 and q in st["wt"] and m != "l":
                            st["wt"][q] = (m, b"changed under skip\n", "")
                    if shape == 1:
                        # every entry of one directory skipped
                        ds = sorted({q.rsplit("/", 1)[0] for q in st["index"] if "/" in q})
                        if ds:
                            d = rng.choice(ds)
                            for q in [q for q in st["index"] if q.startswith(d + "/")]:
                                st["index"][q] = st["index"][q][:2] + ("skip",)
                c = pg.recipe(st)
                c["bucket"] = "skip"
            if k % 13 == 7:
                # an excluded directory that is entered because it holds tracked files: nothing below it can be
                # re-included, by a negation at the root or by its own .gitignore; tracked files stay visible
                d = rng.choice(["d", "build"])
                t1, t2, u1, u2 = rng.sample(["e", "f", "loc", "top", "y.o", "t.tmp"], 4)
                a, b2 = b"1\n", b"2\n"
                root = rng.choice([d + "/\n!" + d + "/" + u1 + "\n", d + "/\n!" + u1 + "\n", d + "\n!" + d + "/*\n", "/" + d + "/\n!*\n"]).encode()
                st = {"fmt": "sha1", "filemode": True, "racy": False, "exclude": b"", "dirs": [],
                      "head": {d + "/" + t1: ("f", a), d + "/" + t2: ("f", a), "k": ("f", a)},
                      "index": {d + "/" + t1: ("f", a, ""), d + "/" + t2: ("f", rng.choice([a, b2]), ""), "k": ("f", a, "")},
                      "wt": {".gitignore": ("f", root, ""), d + "/" + t1: ("f", rng.choice([a, b2]), ""), "k": ("f", a, ""),
                             d + "/" + u1: ("f", b2, ""), d + "/sub/" + u2: ("f", b2, "")}}
                if rng.random() < 0.5:
                    st["wt"][d + "/.gitignore"] = ("f", ("!" + u1 + "\n!sub/\n").encode(), "")
                c = pg.recipe(st)
                c["bucket"] = "excluded-dir"
            if k % 6 == 1:
                # same-size rewrite of a tracked file with explicit sub-second time stamps (see STAMPS)
                a, b = rng.choice([(b"11\n", b"22\n"), (b"1\n", b"2\n"), (b"x", b"y"), (b"same\n", b"same\n")])
                m = rng.choice(["f", "x"])
                w, i = STAMPS[(k // 6) % len(STAMPS)]
                st = {"fmt": "sha1", "filemode": True, "racy": False, "exclude": b"", "dirs": [],
                      "head": {"r": (m, a), "k": ("f", b"keep\n")}, "index": {"r": (m, a, ""), "k": ("f", b"keep\n", "")},
                      "wt": {"r": (m, a, ""), "k": ("f", b"keep\n", "")}}
                c = pg.recipe(st)
                c["stamp"] = {"p": "r", "c": b.hex(), "emt": list(EMT), "wmt": list(w), "imt": list(i)}
                c["bucket"] = "stamp"
            cases.append(c)
        return cases

    def model_expr(self, c):
        return "c27_trie_run %s" % model_inputs(sof(c))

    def nontrivial(self, c):
        st = sof(c)
        h = {p: v[:2] for p, v in st["head"].items()}
        i = {p: v[:2] for p, v in st["index"].items()}
        w = {p: v[:2] for p, v in st["wt"].items()}
        return h != i or i != w

    def oracle(self, ctx, cases, impl, model):
        """the property itself: go-git's per-path status records equal git's porcelain records"""
        fails = {}
        for c in cases:
            r = impl.get(c["id"])
            if r is None or not isinstance(r.get("extra"), dict):
                fails[c["id"]] = "no reply"
                continue
            ex = r["extra"]
            if ex.get("giterr"):
                fails[c["id"]] = "git status failed (machinery): " + ex["giterr"][:200]
                continue
            if not r["out"].startswith("( ok"):
                fails[c["id"]] = "go-git status failed: %s %s" % (r["out"], ex.get("err", ""))
                continue
            a, b = parse_recs(ex.get("gogit")), parse_recs(ex.get("git"))
            diff = sorted(p for p in set(a) | set(b) if a.get(p) != b.get(p))
            if diff:
                fails[c["id"]] = "status differs from git at " + "; ".join("%s: go-git %s git %s" % (p, a.get(p), b.get(p)) for p in diff[:4]) + " @@" + "\x1f".join(diff)
        return fails

    def finding_class(self, c, reason, reply):
        if "@@" not in reason:
            return None
        st = sof(c)
        classes = [deviation(st, p) for p in reason.split("@@", 1)[1].split("\x1f")]
        if classes and all(k is not None for k in classes):
            return classes[0]
        return None

    def extra(self, ctx, cases, impl, model):
        # C-git: S (Spec/GitStatus) against the git binary
        exprs = ["c27_git_trie_run %s" % model_parts(sof(c))[0] for c in cases]
        outs = ctx.coq_eval(self.coq_imports, exprs, chunk=100)
        bad = 0
        sym = {" ": "unmod", "?": "untracked"}
        for c, o in zip(cases, outs):
            r = impl.get(c["id"])
            if r is None or not isinstance(r.get("extra"), dict) or r["extra"].get("giterr"):
                continue
            recs = sorted(r["extra"].get("git") or [], key=lambda s: (s[3:].encode(), s[:2] == "??"))
            want = "( ok" + "".join(" ( x%s %s %s )" % (x[3:].encode().hex(), sym.get(x[0], x[0]), sym.get(x[1], x[1])) for x in recs) + " )"
            if o != want:
                bad += 1
                ctx.notes.append("spec_mismatch GitStatus vs git: %s vs %s on %s" % (o, want, {k: v for k, v in c.items() if k != "id"}))
        return {"spec_vs_git_cases": len(cases), "spec_mismatches": bad}


SUITES = [Main()]
