"""C53: builders of structurally VALID files of every binary format go-git decodes, and the boundary families derived
from them: every length / offset / count / index field takes the values {0, max-1, max, max+1} relative to the actual
size of the table or buffer it refers to (checksums are recomputed, so the file is rejected - or not - by the check of
that field and not by the trailer).  All randomness comes from the rng passed in; every case is (target, [arg bytes])."""
import hashlib
import struct
import zlib

M31, M32, M63, M64 = 1 << 31, 1 << 32, 1 << 63, 1 << 64


def H(hs, data):
    return (hashlib.sha256 if hs == 32 else hashlib.sha1)(data).digest()


def grid(n, extra=()):
    """{0, n-1, n, n+1} (non-negative, distinct, in this order) + extra"""
    out = []
    for v in (0, n - 1, n, n + 1) + tuple(extra):
        if v >= 0 and v not in out:
            out.append(v)
    return out


def rhash(rng, hs, first=None):
    b = bytearray(rng.randrange(256) for _ in range(hs))
    if first is not None:
        b[0] = first
    return bytes(b)


# ------------------------------------------------------------------------------------------------ idx v2 / rev v1

def idx_file(ents, pack, hs=20, raw32=None, table64=None, total=None, version=2):
    """ents: (id, offset, crc) sorted by id.  raw32: {position: 32-bit table word}; table64: the 64-bit table as a list
    of values (default: the offsets >= 2^31 in order); total: value of every fanout entry >= the real count's bucket"""
    fan = [0] * 256
    for h, _, _ in ents:
        fan[h[0]] += 1
    acc, fo = 0, []
    for k in range(256):
        acc += fan[k]
        fo.append(acc)
    if total is not None:
        last = max([k for k in range(256) if fan[k]] or [0])
        fo = [f if k < last else total for k, f in enumerate(fo)]
    body = b"\xfftOc" + struct.pack(">I", version) + b"".join(struct.pack(">I", x & (M32 - 1)) for x in fo)
    body += b"".join(h for h, _, _ in ents)
    body += b"".join(struct.pack(">I", c) for _, _, c in ents)
    o64 = []
    for p, (_, o, _) in enumerate(ents):
        if raw32 and p in raw32:
            body += struct.pack(">I", raw32[p])
            if o >= M31:
                o64.append(o)
        elif o >= M31:
            body += struct.pack(">I", M31 | len(o64))
            o64.append(o)
        else:
            body += struct.pack(">I", o)
    if table64 is not None:
        o64 = table64
    body += b"".join(struct.pack(">Q", o) for o in o64) + pack
    return body + H(hs, body)


def rev_file(ents, pack, hs=20, order=None, version=1, hashfn=None):
    if order is None:
        order = sorted(range(len(ents)), key=lambda i: ents[i][1])
    body = b"RIDX" + struct.pack(">II", version, hashfn if hashfn is not None else (2 if hs == 32 else 1))
    body += b"".join(struct.pack(">I", i & (M32 - 1)) for i in order) + pack
    return body + H(hs, body)


def idx_cases(rng, tier):
    """idx/rev boundary family -> list of (bucket, idx bytes, rev bytes, hs)"""
    out = []
    for hs in (20, 32):
        for n, k in ((2, 1), (3, 2), (5, 1), (5, 4), (9, 3)):
            if (hs == 32 and (n, k) not in ((2, 1), (5, 4))) or (tier == "quick" and (n, k) not in ((2, 1), (3, 2), (5, 4))) \
               or (tier == "quick" and hs == 32 and n != 2):
                continue
            ids = sorted(rhash(rng, hs, first=rng.choice([0, 1, 0x7f, 0xff, rng.randrange(256)])) for _ in range(n))
            if len(set(ids)) != n:
                continue
            big = set(rng.sample(range(1, n), k)) if k < n else set(range(n))
            ents = []
            for p, h in enumerate(ids):
                o = (M31 + rng.randrange(M32) if rng.random() < 0.5 else M32 + rng.randrange(1 << 20)) if p in big else 12 + 50 * p
                ents.append((h, o, rng.randrange(M32)))
            pack = rhash(rng, hs)
            rev = rev_file(ents, pack, hs)
            out.append(("idx-valid", idx_file(ents, pack, hs), rev, hs))
            bigp = sorted(big)
            # the 64-bit slot index of one entry: 0, count-1, count, count+1 (count = number of 8-byte slots)
            for victim in {bigp[0], bigp[-1]}:
                for slot in grid(k, (M31 - 1,)):
                    raw = {p: M31 | i for i, p in enumerate(bigp)}
                    raw[victim] = M31 | slot
                    out.append(("idx-o64-slot", idx_file(ents, pack, hs, raw32=raw), rev, hs))
            # a 32-bit entry turned into a 64-bit reference without a slot for it (table one slot short)
            small = [p for p in range(n) if p not in bigp]
            if small:
                for slot in grid(k):
                    raw = {p: M31 | i for i, p in enumerate(bigp)}
                    raw[small[0]] = M31 | slot
                    t64 = [ents[p][1] for p in bigp]
                    out.append(("idx-o64-extra-ref", idx_file(ents, pack, hs, raw32=raw, table64=t64 + [12345] * 1), rev, hs))
            # table longer / shorter than the references
            t64 = [ents[p][1] for p in bigp]
            for cnt in grid(k):
                out.append(("idx-o64-table-len", idx_file(ents, pack, hs, table64=(t64 + [77, 78])[:cnt]), rev, hs))
            # total object count in the fanout
            for tot in grid(n, (M31 - 1, M31, M32 - 1)):
                out.append(("idx-fanout-total", idx_file(ents, pack, hs, total=tot), rev, hs))
            # rev: positions 0, n-1, n, n+1
            order = sorted(range(n), key=lambda i: ents[i][1])
            for at in (0, n - 1):
                for v in grid(n, (M32 - 1,)):
                    o2 = list(order)
                    o2[at] = v
                    out.append(("rev-position", idx_file(ents, pack, hs), rev_file(ents, pack, hs, order=o2), hs))
            for cnt in grid(n):
                out.append(("rev-count", idx_file(ents, pack, hs), rev_file(ents, pack, hs, order=(order + [0, 1])[:cnt]), hs))
        # the empty index
        pack = rhash(rng, hs)
        out.append(("idx-empty", idx_file([], pack, hs), rev_file([], pack, hs), hs))
        out.append(("idx-empty", idx_file([], pack, hs, total=1), rev_file([], pack, hs), hs))
    return out


# ------------------------------------------------------------------------------------------------ pack v2 + deltas

OBJ_COMMIT, OBJ_TREE, OBJ_BLOB, OBJ_TAG, OBJ_OFS, OBJ_REF = 1, 2, 3, 4, 6, 7


def entry_header(typ, size):
    b = [(typ << 4) | (size & 15)]
    size >>= 4
    while size:
        b[-1] |= 0x80
        b.append(size & 0x7f)
        size >>= 7
    return bytes(b)


def ofs_varint(n):
    b = [n & 0x7f]
    n >>= 7
    while n:
        n -= 1
        b.insert(0, 0x80 | (n & 0x7f))
        n >>= 7
    return bytes(b)


def leb(n):
    b = []
    while True:
        c = n & 0x7f
        n >>= 7
        if n:
            b.append(c | 0x80)
        else:
            b.append(c)
            return bytes(b)


def copy_op(off, sz):
    cmd, tail = 0x80, b""
    for i in range(4):
        v = (off >> (8 * i)) & 0xff
        if v:
            cmd |= 1 << i
            tail += bytes([v])
    if sz != 0x10000:
        for i in range(3):
            v = (sz >> (8 * i)) & 0xff
            if v:
                cmd |= 0x10 << i
                tail += bytes([v])
    return bytes([cmd]) + tail


def delta(srcsz, tgtsz, ops):
    """ops: ('copy', off, sz) | ('ins', bytes) | ('ins', declared length, bytes) | ('raw', bytes)"""
    d = leb(srcsz) + leb(tgtsz)
    for op in ops:
        if op[0] == "copy":
            d += copy_op(op[1], op[2])
        elif op[0] == "ins" and len(op) == 2:
            d += bytes([len(op[1])]) + op[1]
        elif op[0] == "ins":
            d += bytes([op[1]]) + op[2]
        else:
            d += op[1]
    return d


def apply_ops(src, ops):
    t = b""
    for op in ops:
        if op[0] == "copy":
            t += src[op[1]:op[1] + op[2]]
        elif op[0] == "ins":
            t += op[-1]
    return t


def obj_id(typ, data, hs=20):
    name = {OBJ_COMMIT: b"commit", OBJ_TREE: b"tree", OBJ_BLOB: b"blob", OBJ_TAG: b"tag"}[typ]
    return H(hs, name + b" %d\0" % len(data) + data)


def pack_file(entries, count=None, hs=20, version=2, trailer=True):
    """entries: dicts {t, data, [size], [neg] (ofs-delta distance) | [base_at] (index of the base entry) | [ref] (id)}
    -> (bytes, offsets)"""
    body = b"PACK" + struct.pack(">II", version, len(entries) if count is None else count)
    offs = []
    for e in entries:
        offs.append(len(body))
        size = e.get("size", len(e["data"]))
        hdr = entry_header(e["t"], size)
        if e["t"] == OBJ_OFS:
            neg = e["neg"] if "neg" in e else offs[-1] - offs[e["base_at"]]
            hdr += ofs_varint(neg)
        elif e["t"] == OBJ_REF:
            hdr += e["ref"]
        body += hdr + zlib.compress(e["data"])
    return (body + H(hs, body) if trailer else body), offs


def delta_families(rng, src):
    """(bucket, srcsz, tgtsz or None (= actual), ops) around a base of len(src) bytes"""
    n = len(src)
    lit = bytes(rng.randrange(256) for _ in range(7))
    fam = [("delta-valid", n, None, [("copy", 0, n), ("ins", lit)]),
           ("delta-valid", n, None, [("ins", lit), ("copy", n - 1, 1), ("copy", 0, 1)])]
    for s in grid(n, (M32 - 1, M32)):
        fam.append(("delta-srcsz", s, None, [("copy", 0, min(n, 5)), ("ins", lit)]))
    ops = [("copy", 2, 10), ("ins", lit)]
    for t in grid(17, (16, 18, M32)):
        fam.append(("delta-tgtsz", n, t, ops))
    for off in grid(n, (n - 2,)):
        for sz in (1, 2, 0x10000):
            fam.append(("delta-copy-off", n, None, [("copy", off, sz)]))
    for end in grid(n):
        for off in (0, 1, end - 1):
            if 0 <= off < end:
                fam.append(("delta-copy-end", n, None, [("copy", off, end - off)]))
    for off, sz in ((M32 - 1, 1), (M32 - 1, 0xffffff), (0, 0xffffff), (n, 0x10000), (0, 0x10000)):
        fam.append(("delta-copy-wide", n, None, [("copy", off, sz)]))
    for decl in grid(len(lit), (127,)):
        if 0 < decl < 128:
            fam.append(("delta-insert-len", n, decl + 3, [("copy", 0, 3), ("ins", decl, lit)]))
    fam.append(("delta-cmd0", n, 3, [("copy", 0, 3), ("raw", b"\x00")]))
    fam.append(("delta-trailing", n, 3, [("copy", 0, 3), ("raw", b"\x01")]))
    fam.append(("delta-copy-cut", n, 3, [("raw", b"\x91")]))          # offset and size bytes announced, none present
    fam.append(("delta-copy-cut", n, 3, [("raw", b"\xff\x00\x00")]))
    fam.append(("delta-empty", n, 0, []))
    fam.append(("delta-empty", 0, 0, []))
    return fam


def delta_cases(rng, tier):
    """-> (bucket, src, delta)"""
    out = []
    for n in (1, 16, 300) if tier == "quick" else (1, 2, 16, 127, 128, 300, 0x10000, 0x10001):
        src = bytes(rng.randrange(256) for _ in range(n))
        for b, s, t, ops in delta_families(rng, src):
            tt = len(apply_ops(src, ops)) if t is None else t
            out.append((b, src, delta(s, tt, ops)))
    out.append(("delta-empty", b"", delta(0, 0, [])))
    out.append(("delta-empty", b"", b""))
    out.append(("delta-empty", b"x", b"\x01"))
    return out


def pack_cases(rng, tier, hs=20):
    """-> (bucket, pack bytes, idx bytes or b'')"""
    out = []
    base = bytes(rng.randrange(32, 127) for _ in range(60))
    blob2 = b"second blob " + bytes(rng.randrange(32, 127) for _ in range(9))
    ops = [("copy", 0, 20), ("ins", b"-mid-"), ("copy", 40, 20)]
    tgt = apply_ops(base, ops)
    d1 = delta(len(base), len(tgt), ops)
    ops2 = [("copy", 0, len(tgt)), ("ins", b"!")]
    d2 = delta(len(tgt), len(tgt) + 1, ops2)
    commit = (b"tree " + b"4b825dc642cb6eb9a060e54bf8d69288fbee4904" + b"\nauthor A <a@b> 1 +0000\ncommitter A <a@b> 1 +0000\n\nm\n")
    valid = [{"t": OBJ_BLOB, "data": base}, {"t": OBJ_BLOB, "data": blob2}, {"t": OBJ_OFS, "data": d1, "base_at": 0},
             {"t": OBJ_OFS, "data": d2, "base_at": 2}, {"t": OBJ_REF, "data": d1, "ref": obj_id(OBJ_BLOB, base, hs)},
             {"t": OBJ_COMMIT, "data": commit}, {"t": OBJ_TREE, "data": b""}]
    n = len(valid)
    pk, offs = pack_file(valid, hs=hs)
    out.append(("pack-valid", pk, b""))
    for c in grid(n, (M32 - 1,)):
        out.append(("pack-count", pack_file(valid, count=c, hs=hs)[0], b""))
    for v in (0, 1, 3, M32 - 1):
        out.append(("pack-version", pack_file(valid, version=v, hs=hs)[0], b""))
    for at in (0, 2, 5):
        for s in grid(len(valid[at]["data"]), (M32 - 1, M63, M64 - 1)):
            es = [dict(e) for e in valid]
            es[at]["size"] = s
            out.append(("pack-entry-size", pack_file(es, hs=hs)[0], b""))
    # ofs-delta distance: 0, 1, d-1, d (the real base), d+1, up to the header / position 0 / before the file
    for at in (2, 3):
        d = offs[at] - offs[valid[at]["base_at"]]
        for neg in grid(d, (1, offs[at] - 12, offs[at] - 11, offs[at] - 1, offs[at], offs[at] + 1, M31, M63 - 1)):
            es = [dict(e) for e in valid]
            es[at] = {"t": OBJ_OFS, "data": valid[at]["data"], "neg": neg}
            out.append(("pack-ofs-distance", pack_file(es, hs=hs)[0], b""))
    # ref-delta to an absent id, to itself (its own result id), to a later object
    es = [dict(e) for e in valid]
    es[4]["ref"] = rhash(rng, hs)
    out.append(("pack-ref-absent", pack_file(es, hs=hs)[0], b""))
    es = [dict(e) for e in valid]
    es[4]["ref"] = obj_id(OBJ_BLOB, tgt, hs)
    out.append(("pack-ref-self", pack_file(es, hs=hs)[0], b""))
    es = [{"t": OBJ_REF, "data": d1, "ref": obj_id(OBJ_BLOB, base, hs)}, {"t": OBJ_BLOB, "data": base}]
    out.append(("pack-ref-forward", pack_file(es, hs=hs)[0], b""))
    # every delta family inside a pack (ofs and ref)
    for b, s, t, dops in delta_families(rng, base):
        tt = len(apply_ops(base, dops)) if t is None else t
        dd = delta(s, tt, dops)
        out.append(("pack-" + b, pack_file([{"t": OBJ_BLOB, "data": base}, {"t": OBJ_OFS, "data": dd, "base_at": 0}], hs=hs)[0], b""))
        if tier != "quick" or rng.random() < 0.3:
            out.append(("pack-" + b, pack_file([{"t": OBJ_BLOB, "data": base}, {"t": OBJ_REF, "data": dd, "ref": obj_id(OBJ_BLOB, base, hs)}], hs=hs)[0], b""))
    # a delta chain of 50 / 51 / 52 links (maxDeltaChainDepth = 50)
    for depth in (49, 50, 51):
        es = [{"t": OBJ_BLOB, "data": base}]
        cur = base
        for i in range(depth):
            o = [("copy", 0, len(cur)), ("ins", b"%d" % (i % 10))]
            nxt = apply_ops(cur, o)
            es.append({"t": OBJ_OFS, "data": delta(len(cur), len(nxt), o), "base_at": i})
            cur = nxt
        out.append(("pack-chain-depth", pack_file(es, hs=hs)[0], b""))
    # truncations at every structural boundary of the valid pack
    for cut in sorted(set([0, 4, 8, 11, 12] + offs + [o + 1 for o in offs] + [len(pk) - hs - 1, len(pk) - hs, len(pk) - 1])):
        out.append(("pack-truncated", pk[:cut], b""))
    out.append(("pack-trailing", pk + b"\0", b""))
    out.append(("pack-empty", pack_file([], hs=hs)[0], b""))
    # a valid pack read through an idx whose offsets sit on every boundary of the pack
    ids = [obj_id(OBJ_BLOB, base, hs), obj_id(OBJ_BLOB, blob2, hs), obj_id(OBJ_BLOB, tgt, hs), obj_id(OBJ_BLOB, apply_ops(tgt, ops2), hs),
           obj_id(OBJ_COMMIT, commit, hs), obj_id(OBJ_TREE, b"", hs)]
    real = [offs[0], offs[1], offs[2], offs[3], offs[5], offs[6]]
    packsum = pk[-hs:]
    for victim in (0, 2, 5):
        for o in grid(real[victim], (1, 11, 12, 13, len(pk) - hs - 1, len(pk) - hs, len(pk) - 1, len(pk), len(pk) + 1, M31 - 1, M31, M32, M63 - 1, M63, M64 - 1)):
            ents = sorted((ids[i], (o if i == victim else real[i]), 0) for i in range(len(ids)))
            out.append(("pack-idx-offset", pk, idx_file(ents, packsum, hs)))
    return out


# ------------------------------------------------------------------------------------------------ index (DIRC)

def index_entry(version, name, prev=None, hs=20, namelen=None, strip=None, ext=None, stage=0, mode=0o100644, hash_=None):
    hash_ = hash_ if hash_ is not None else bytes(range(1, hs + 1))
    nl = min(len(name), 0xfff) if namelen is None else namelen
    flags = (nl & 0xfff) | (stage << 12) | (0x4000 if ext is not None else 0)
    b = struct.pack(">10I", 1, 2, 3, 4, 5, 6, mode, 7, 8, 9) + hash_ + struct.pack(">H", flags)
    if ext is not None:
        b += struct.pack(">H", ext)
    if version == 4:
        if prev is None:
            cp = 0
            s = 0 if strip is None else strip
        else:
            cp = 0
            while cp < len(prev) and cp < len(name) and prev[cp] == name[cp]:
                cp += 1
            s = len(prev) - cp if strip is None else strip
        return b + ofs_varint(s) + name[cp:] + b"\0"
    b += name
    pad = 8 - (len(b) % 8)
    return b + b"\0" * pad


def index_ext(sig, data, declared=None):
    return sig + struct.pack(">I", len(data) if declared is None else declared) + data


def index_file(version, entries, exts=b"", count=None, hs=20, zero_sum=False):
    body = b"DIRC" + struct.pack(">II", version, len(entries) if count is None else count) + b"".join(entries) + exts
    return body + (bytes(hs) if zero_sum else H(hs, body))


def tree_ext(items, hs=20):
    """items: (path, count text, subtrees text, hash or None)"""
    return b"".join(p + b"\0" + c + b" " + s + b"\n" + (h if h is not None else b"") for p, c, s, h in items)


def index_cases(rng, tier):
    out = []
    names = [b"Makefile", b"dir/a.go", b"dir/ab.go", b"dir/sub/x", b"z"]
    hs = 20
    for ver in (2, 3, 4):
        def ents(ns=names, **kw):
            es, prev = [], None
            for i, nm in enumerate(ns):
                k = {a: v for a, v in kw.items() if not isinstance(v, dict)}
                for a, v in kw.items():
                    if isinstance(v, dict) and i in v:
                        k[a] = v[i]
                es.append(index_entry(ver, nm, prev, hs, **k))
                prev = nm
            return es
        n = len(names)
        tree = index_ext(b"TREE", tree_ext([(b"", b"5", b"1", bytes(hs)), (b"dir", b"3", b"0", bytes(hs))]))
        out.append(("index-valid", index_file(ver, ents(), tree, hs=hs)))
        out.append(("index-valid", index_file(ver, ents(), b"", hs=hs, zero_sum=True)))
        for c in grid(n, (M32 - 1,)):
            out.append(("index-count", index_file(ver, ents(), tree, count=c, hs=hs)))
        if ver != 4:
            for at in (0, n - 1):
                for nl in grid(len(names[at]), (0xffe, 0xfff)):
                    out.append(("index-namelen", index_file(ver, ents(namelen={at: nl}), tree, hs=hs)))
            long = b"d/" + b"n" * rng.choice([0xffd, 0xffe, 0xfff, 0x1000])
            out.append(("index-longname", index_file(ver, ents(ns=[b"a", long, long + b"x"]), b"", hs=hs)))
        else:
            for at in (0, 1, n - 1):
                plen = len(names[at - 1]) if at else 0
                for s in grid(plen, (M31, M63 - 1)):
                    out.append(("index-v4-strip", index_file(ver, ents(strip={at: s}), tree, hs=hs)))
        if ver >= 3:
            for x in (0, 0x2000, 0x4000, 0x8000, 0xffff):
                out.append(("index-extended", index_file(ver, ents(ext={1: x}), tree, hs=hs)))
        # extension sizes: relative to the extension's real size and to what remains before the trailer
        tdata = tree_ext([(b"", b"5", b"1", bytes(hs)), (b"dir", b"-1", b"0", None), (b"d2", b"2", b"0", bytes(hs))])
        for decl in grid(len(tdata), (len(tdata) + hs - 1, len(tdata) + hs, len(tdata) + hs + 1, M31, M32 - 1)):
            out.append(("index-ext-size", index_file(ver, ents(), index_ext(b"TREE", tdata, decl), hs=hs)))
        for cnt, sub in ((b"0", b"0"), (b"-1", b"-1"), (b"99999999999999999999", b"0"), (b"2147483648", b"1"), (b"", b""), (b"1", b"+1"), (b"0x1", b"0")):
            out.append(("index-tree-count", index_file(ver, ents(), index_ext(b"TREE", tree_ext([(b"", cnt, sub, bytes(hs))])), hs=hs)))
        for hl in grid(hs):
            out.append(("index-tree-hash", index_file(ver, ents(), index_ext(b"TREE", tree_ext([(b"", b"1", b"0", bytes(hl))])), hs=hs)))
        reuc = b"f\0" + b"100644\0" + b"0\0" + b"100755\0" + bytes(hs) + bytes(hs)
        out.append(("index-reuc", index_file(ver, ents(), index_ext(b"REUC", reuc), hs=hs)))
        for hl in grid(2 * hs):
            out.append(("index-reuc-hash", index_file(ver, ents(), index_ext(b"REUC", reuc[:len(reuc) - 2 * hs] + bytes(hl)), hs=hs)))
        for m in (b"", b"8", b"777777777777777777777777", b"-1"):
            out.append(("index-reuc-mode", index_file(ver, ents(), index_ext(b"REUC", b"f\0" + m + b"\0" + b"0\0" + b"0\0" + bytes(hs)), hs=hs)))
        body_len = 12 + sum(len(e) for e in ents())
        for off in grid(body_len, (M32 - 1,)):
            out.append(("index-eoie", index_file(ver, ents(), tree + index_ext(b"EOIE", struct.pack(">I", off) + bytes(hs)), hs=hs)))
        for dl in grid(4 + hs):
            out.append(("index-eoie-size", index_file(ver, ents(), index_ext(b"EOIE", bytes(dl)), hs=hs)))
        out.append(("index-ext-unknown", index_file(ver, ents(), index_ext(b"ZZZZ", b"whatever") + tree, hs=hs)))
        out.append(("index-ext-mandatory", index_file(ver, ents(), index_ext(b"link", bytes(hs)) + tree, hs=hs)))
        full = index_file(ver, ents(), tree, hs=hs)
        for cut in sorted({0, 4, 8, 11, 12, 12 + 40, 12 + 40 + hs, 12 + 62, body_len - 1, body_len, body_len + 4, body_len + 8, len(full) - hs - 1, len(full) - hs, len(full) - 1}):
            out.append(("index-truncated", full[:cut]))
    out.append(("index-empty", index_file(2, [], b"", hs=hs)))
    for v in (0, 1, 5, M32 - 1):
        out.append(("index-version", index_file(v, [index_entry(2, b"a")], b"", hs=hs)))
    return out


# ------------------------------------------------------------------------------------------------ commit-graph

PARENT_NONE = 0x70000000


def cg_file(commits, edges=(), gda2=None, gdo2=(), nchunks=None, offsets=None, term=None, total=None, hashver=1, version=1,
            extra_chunks=(), base_count=0):
    """commits: (id, tree, p1, p2, generation, time) sorted by id; edges: list of 32-bit words; gda2: list of 32-bit words"""
    n = len(commits)
    fan = [0] * 256
    for c in commits:
        fan[c[0][0]] += 1
    acc, fo = 0, []
    for k in range(256):
        acc += fan[k]
        fo.append(acc)
    if total is not None:
        last = max([k for k in range(256) if fan[k]] or [0])
        fo = [f if k < last else total for k, f in enumerate(fo)]
    chunks = [(b"OIDF", b"".join(struct.pack(">I", x & (M32 - 1)) for x in fo)),
              (b"OIDL", b"".join(c[0] for c in commits)),
              (b"CDAT", b"".join(c[1] + struct.pack(">IIQ", c[2], c[3], ((c[4] << 34) | c[5]) & (M64 - 1)) for c in commits))]
    if gda2 is not None:
        chunks.append((b"GDA2", b"".join(struct.pack(">I", x) for x in gda2)))
        if gdo2 != ():
            chunks.append((b"GDO2", b"".join(struct.pack(">Q", x) for x in gdo2)))
    if edges != ():
        chunks.append((b"EDGE", b"".join(struct.pack(">I", x) for x in edges)))
    chunks += list(extra_chunks)
    k = len(chunks)
    toc_len = (k + 1) * 12
    pos = 8 + toc_len
    toc = b""
    for i, (cid, data) in enumerate(chunks):
        o = pos if not offsets or cid not in offsets else offsets[cid]
        toc += cid + struct.pack(">Q", o & (M64 - 1))
        pos += len(data)
    toc += b"\0\0\0\0" + struct.pack(">Q", (pos if term is None else term) & (M64 - 1))
    body = b"CGPH" + bytes([version, hashver, k if nchunks is None else nchunks, base_count]) + toc + b"".join(d for _, d in chunks)
    return body + H(20, body)


def cg_cases(rng, tier):
    out = []
    n = 6
    ids = sorted(rhash(rng, 20, first=rng.choice([0, 0x80, 0xff, rng.randrange(256)])) for _ in range(n))
    tree = bytes(20)

    def commits(p1=None, p2=None):
        cs = []
        for i, h in enumerate(ids):
            a = (i - 1) if i else PARENT_NONE
            b = PARENT_NONE
            if p1 and i in p1:
                a = p1[i]
            if p2 and i in p2:
                b = p2[i]
            cs.append((h, tree, a, b, i + 1, 1700000000 + i))
        return cs
    edges_ok = [1, 2, 0x80000000 | 3]
    out.append(("cg-valid", cg_file(commits())))
    out.append(("cg-valid", cg_file(commits(p2={5: 0x80000000 | 0}), edges=edges_ok, gda2=[1] * n)))
    for v in grid(n, (PARENT_NONE - 1, PARENT_NONE, PARENT_NONE + 1, 0x7fffffff, M32 - 1)):
        out.append(("cg-parent1", cg_file(commits(p1={4: v}))))
        out.append(("cg-parent2", cg_file(commits(p2={4: v & 0x7fffffff}))))
    for pos in grid(len(edges_ok), (0x7fffffff,)):
        out.append(("cg-edge-pos", cg_file(commits(p2={5: 0x80000000 | pos}), edges=edges_ok)))
    for v in grid(n, (0x7fffffff,)):
        out.append(("cg-edge-value", cg_file(commits(p2={5: 0x80000000}), edges=[1, v, 0x80000000 | 2])))
        out.append(("cg-edge-last", cg_file(commits(p2={5: 0x80000000}), edges=[1, 2, 0x80000000 | v])))
    out.append(("cg-edge-unterminated", cg_file(commits(p2={5: 0x80000000}), edges=[1, 2, 3])))
    out.append(("cg-edge-missing", cg_file(commits(p2={5: 0x80000000}))))
    gdo = [1 << 33, 1 << 40]
    for pos in grid(len(gdo), (0x7fffffff,)):
        g = [1] * n
        g[2] = 0x80000000 | pos
        out.append(("cg-gdo2-pos", cg_file(commits(), gda2=g, gdo2=gdo)))
    g = [1] * n
    g[2] = 0x80000000
    out.append(("cg-gdo2-missing", cg_file(commits(), gda2=g)))
    for ln in grid(n):
        out.append(("cg-gda2-len", cg_file(commits(), gda2=([7] * (n + 1))[:ln])))
    for k in grid(3, (255,)):
        out.append(("cg-nchunks", cg_file(commits(), nchunks=k)))
    valid = cg_file(commits(), edges=edges_ok, gda2=[1] * n)
    fsz = len(valid)
    for cid in (b"OIDF", b"OIDL", b"CDAT", b"GDA2", b"EDGE"):
        for o in grid(fsz - 20, (8, fsz - 1, fsz, fsz + 1, M63 - 1, M63, M64 - 1)):
            out.append(("cg-chunk-offset", cg_file(commits(), edges=edges_ok, gda2=[1] * n, offsets={cid: o})))
    for t in grid(fsz - 20, (fsz, M63 - 1, M64 - 1)):
        out.append(("cg-terminator", cg_file(commits(), edges=edges_ok, gda2=[1] * n, term=t)))
    for tot in grid(n, (0x7fffffff, 0x80000000, M32 - 1)):
        out.append(("cg-fanout-total", cg_file(commits(), total=tot)))
    for hv in (0, 2, 3):
        out.append(("cg-hashver", cg_file(commits(), hashver=hv)))
    out.append(("cg-dup-chunk", cg_file(commits(), extra_chunks=[(b"OIDL", b"".join(ids))])))
    out.append(("cg-unknown-chunk", cg_file(commits(), extra_chunks=[(b"XXXX", b"abc")])))
    out.append(("cg-base-chunk", cg_file(commits(), extra_chunks=[(b"BASE", bytes(20))], base_count=1)))
    out.append(("cg-empty", cg_file([])))
    for cut in sorted({0, 4, 7, 8, 20, 8 + 4 * 12, fsz - 21, fsz - 20, fsz - 1}):
        out.append(("cg-truncated", valid[:cut]))
    return out


# ------------------------------------------------------------------------------------------------ loose objects, trees, idents

def objfile_cases(rng, tier):
    out = []
    content = b"hello loose object\n"
    n = len(content)
    for t in (b"blob", b"commit", b"tree", b"tag"):
        out.append(("objfile-valid", zlib.compress(t + b" %d\0" % n + content)))
    for s in grid(n, (M31, M63 - 1, M63, M64)):
        out.append(("objfile-size", zlib.compress(b"blob %d\0" % s + content)))
    for s in (b"-1", b"+5", b"05", b"", b" 5", b"5 ", b"0x5", b"99999999999999999999999999"):
        out.append(("objfile-size-text", zlib.compress(b"blob " + s + b"\0" + content)))
    for total in (31, 32, 33, 34):            # header length around maxHeaderLen = 32 (type + SP + digits + NUL)
        digits = b"0" * (total - len(b"blob ") - 1 - 2) + b"%d" % n
        out.append(("objfile-header-len", zlib.compress(b"blob " + digits + b"\0" + content)))
        out.append(("objfile-header-len", zlib.compress(b"b" * (total - 3) + b" 1\0" + content)))
    out.append(("objfile-no-nul", zlib.compress(b"blob 19" + content)))
    out.append(("objfile-no-space", zlib.compress(b"blob19\0" + content)))
    z = zlib.compress(b"blob %d\0" % n + content)
    for cut in sorted({0, 1, 2, len(z) - 5, len(z) - 4, len(z) - 1}):
        out.append(("objfile-truncated", z[:cut]))
    out.append(("objfile-trailing", z + b"junk"))
    return out


def tree_cases(rng, tier):
    out = []
    hs = 20
    e = lambda mode, name, h=None: mode + b" " + name + b"\0" + (bytes(range(hs)) if h is None else h)
    valid = e(b"100644", b"a") + e(b"40000", b"dir") + e(b"160000", b"sub")
    out.append(("tree-valid", valid))
    for hl in grid(hs, (hs + 2, 32)):
        out.append(("tree-hash-len", e(b"100644", b"a") + e(b"100755", b"b", bytes(hl))))
    for m in (b"", b"0", b"7", b"8", b"100644100644", b"37777777777", b"40000000000", b"777777777777777777777777", b"-1", b"+1"):
        out.append(("tree-mode", e(m, b"x")))
    for nm in (b"", b"/", b"a/b", b".git", b"..", b"a" * 4096):
        out.append(("tree-name", e(b"100644", nm)))
    for cut in range(0, len(valid) + 1, 1 if tier != "quick" else 3):
        out.append(("tree-truncated", valid[:cut]))
    return out


def ident_cases(rng, tier):
    """commit / tag / reflog lines with numeric fields on the int64 / timezone boundaries"""
    out = []
    tree = b"4b825dc642cb6eb9a060e54bf8d69288fbee4904"
    whens = [b"0 +0000", b"1 -0000", b"9223372036854775806 +0000", b"9223372036854775807 +0000", b"9223372036854775808 +0000",
             b"18446744073709551616 +0000", b"-1 +0000", b"-9223372036854775808 +0000", b"1 +9999", b"1 -9999", b"1 +10000", b"1 +2400",
             b"1 +0060", b"1 +", b"1 +0", b"1 +00000", b"1 ", b"1", b"", b" +0000", b"1 0000", b"1 +00x0", b"253402300800 +0000",
             b"99999999999 +0000"]
    for w in whens:
        ident = b"A U Thor <a@b> " + w
        out.append(("ident-commit", 0, b"tree " + tree + b"\nauthor " + ident + b"\ncommitter " + ident + b"\n\nmsg\n"))
        out.append(("ident-tag", 2, b"object " + tree + b"\ntype commit\ntag v1\ntagger " + ident + b"\n\nmsg\n"))
        out.append(("ident-reflog", None, b"0" * 40 + b" " + b"1" * 40 + b" " + ident + b"\tmsg\n"))
    for ident in (b"<", b">", b"<>", b"A <", b"A >", b"A <a@b", b"A a@b>", b"A <a@b>", b"A <a@b>1 +0000", b"A <a@b> >", b"<<>>", b"A <a@b> 1 +0000 extra"):
        out.append(("ident-shape", 0, b"tree " + tree + b"\nauthor " + ident + b"\ncommitter " + ident + b"\n\nmsg\n"))
        out.append(("ident-shape", 2, b"object " + tree + b"\ntype commit\ntag v1\ntagger " + ident + b"\n\nmsg\n"))
        out.append(("ident-shape", None, b"0" * 40 + b" " + b"1" * 40 + b" " + ident + b"\tmsg\n"))
    for hl in (39, 40, 41, 63, 64, 65):
        out.append(("hash-len", 0, b"tree " + b"a" * hl + b"\nparent " + b"b" * hl + b"\nauthor A <a@b> 1 +0000\ncommitter A <a@b> 1 +0000\n\nm\n"))
        out.append(("hash-len", 2, b"object " + b"a" * hl + b"\ntype commit\ntag v\ntagger A <a@b> 1 +0000\n\nm\n"))
        out.append(("hash-len", None, b"0" * hl + b" " + b"1" * hl + b" A <a@b> 1 +0000\tm\n"))
        out.append(("hash-len", None, b"0" * 40 + b" " + b"1" * hl + b" A <a@b> 1 +0000\tm\n"))
    return out


# ------------------------------------------------------------------------------------------------ pkt-line framing

def pkt(payload, declared=None):
    n = len(payload) + 4 if declared is None else declared
    return b"%04x" % (n & 0xffff) + payload


PACKP_FIRST_LINES = {
    "plumbing/protocol/packp.FuzzAdvRefsDecode": b"6ecf0ef2c2dffb796033e5a02219af86ec6584e5 HEAD\0multi_ack thin-pack side-band ofs-delta agent=git/2\n",
    "plumbing/protocol/packp.FuzzUlReqDecode": b"want 6ecf0ef2c2dffb796033e5a02219af86ec6584e5 multi_ack ofs-delta\n",
    "plumbing/protocol/packp.FuzzUpdReqDecode": b"0000000000000000000000000000000000000000 6ecf0ef2c2dffb796033e5a02219af86ec6584e5 refs/heads/x\0report-status\n",
    "plumbing/protocol/packp.FuzzServerResponseDecode": b"ACK 6ecf0ef2c2dffb796033e5a02219af86ec6584e5\n",
    "plumbing/protocol/packp.FuzzShallowUpdateDecode": b"shallow 6ecf0ef2c2dffb796033e5a02219af86ec6584e5\n",
    "plumbing/protocol/packp.FuzzReportStatusDecode": b"unpack ok\n",
    "plumbing/protocol/packp.FuzzGitProtoDecode": b"git-upload-pack /repo.git\0host=example.com\0",
    "plumbing/protocol/packp.FuzzPushOptionsDecode": b"ci.skip\n",
    "plumbing/protocol/packp.FuzzFetchArgsDecode": b"want 6ecf0ef2c2dffb796033e5a02219af86ec6584e5\n",
    "plumbing/protocol/packp.FuzzFetchOutputDecode": b"acknowledgments\n",
    "plumbing/protocol/packp.FuzzCommandRequestDecode": b"command=ls-refs\n",
    "plumbing/protocol/packp.FuzzCapabilityAdvDecode": b"version 2\n",
    "plumbing/protocol/packp.FuzzLsRefsArgsDecode": b"peel\n",
    "plumbing/protocol/packp.FuzzLsRefsOutputDecode": b"6ecf0ef2c2dffb796033e5a02219af86ec6584e5 refs/heads/master\n",
}
SECOND_LINES = {
    "plumbing/protocol/packp.FuzzAdvRefsDecode": b"6ecf0ef2c2dffb796033e5a02219af86ec6584e5 refs/heads/master\n",
    "plumbing/protocol/packp.FuzzUlReqDecode": b"want 1111111111111111111111111111111111111111\n",
    "plumbing/protocol/packp.FuzzUpdReqDecode": b"6ecf0ef2c2dffb796033e5a02219af86ec6584e5 0000000000000000000000000000000000000000 refs/heads/y\n",
    "plumbing/protocol/packp.FuzzReportStatusDecode": b"ok refs/heads/x\n",
    "plumbing/protocol/packp.FuzzFetchOutputDecode": b"ACK 6ecf0ef2c2dffb796033e5a02219af86ec6584e5\n",
    "plumbing/protocol/packp.FuzzCapabilityAdvDecode": b"fetch=shallow\n",
    "plumbing/protocol/packp.FuzzCommandRequestDecode": b"agent=git/2\n",
}
PKT_TARGETS = ["plumbing/format/pktline.FuzzRead", "plumbing/format/pktline.FuzzPeekLine", "plumbing/format/pktline.FuzzReadLine",
               "plumbing/format/pktline.FuzzScanner"]


def pkt_cases(rng, tier):
    """-> (bucket, target, [args])"""
    out = []
    payloads = [b"", b"a", b"hello\n", b"x" * 65515, b"x" * 65516]
    for p in payloads:
        n = len(p) + 4
        for d in grid(n, (1, 2, 3, 4, 5, 65519, 65520, 65521, 0xffff)):
            if d > 0xffff:
                continue
            for t in PKT_TARGETS:
                if len(p) > 100 and t != PKT_TARGETS[0] and tier == "quick":
                    continue
                out.append(("pkt-declared-len", t, [pkt(p, d) + b"0000"]))
    for t, first in PACKP_FIRST_LINES.items():
        second = SECOND_LINES.get(t, b"")
        n = len(first) + 4
        for d in grid(n, (1, 2, 3, 4, 5, 44, 45, 46, 0xffff)):
            tail = (pkt(second) if second else b"") + b"0000"
            out.append(("packp-declared-len", t, [pkt(first, d) + tail]))
        if second:
            m = len(second) + 4
            for d in grid(m, (4, 5, 44, 45, 46)):
                out.append(("packp-declared-len-2nd", t, [pkt(first) + pkt(second, d) + b"0000"]))
        for hl in (39, 40, 41):
            f2 = first.replace(b"6ecf0ef2c2dffb796033e5a02219af86ec6584e5", b"6ecf0ef2c2dffb796033e5a02219af86ec6584e5f"[:hl])
            out.append(("packp-hash-len", t, [pkt(f2) + (pkt(second) if second else b"") + b"0000"]))
    # sideband: band byte + payload, the declared length around the band byte
    for band in (0, 1, 2, 3, 4, 255):
        for p in (b"", b"d", b"data" * 10):
            frame = bytes([band]) + p
            for d in grid(len(frame) + 4, (4, 5, 6, 1004, 1005, 65520, 65521)):
                for typ in (0, 1):
                    out.append(("sideband-declared-len", "verif/sideband.Demux", [bytes([typ]), pkt(frame, d) + b"0000"]))
    return out
