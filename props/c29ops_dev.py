#!/usr/bin/env python3
"""development driver of the C29 extension (batch d08): runs SUITES_OPS / THEOREMS_OPS of
props/c29ops_lib.py alone through the shared runner, exactly as `./check C29` will once
props/C29.py appends them.  Not a property module and not registered anywhere.

  python3 props/c29ops_dev.py [--tier quick|thorough] [--seed N] [--replay FILE] [--suite ops|opsfault]

Differences from ./check: the Coq target is Properties/C29Ops.vo, known findings are read from
findings/*.json (property C29) instead of the generated known_findings.json, corpus/C29 is used,
and the evidence goes to $TMPDIR/C29Ops.evidence.json (nothing under evidence/ is written)."""
import argparse, json, os, sys, tempfile, types
ROOT = os.path.dirname(os.path.dirname(os.path.abspath(__file__)))
sys.path.insert(0, os.path.join(ROOT, "lib"))
sys.path.insert(0, ROOT)
from vf import core
from props import c29ops_lib as L

ap = argparse.ArgumentParser()
ap.add_argument("--tier", default=os.environ.get("VERIF_TIER", "quick"), choices=["quick", "thorough"])
ap.add_argument("--seed", type=int, default=int(os.environ.get("VERIF_SEED", "20260922")))
ap.add_argument("--replay")
ap.add_argument("--suite")
a = ap.parse_args()


def load_known(pid):
    known, fixed = {}, []
    fd = os.path.join(ROOT, "findings")
    for fn in sorted(os.listdir(fd)):
        if fn.endswith(".json"):
            for f in json.load(open(os.path.join(fd, fn))).get("findings", []):
                if f["property"] != "C29":
                    continue
                if f.get("status", "known") == "known":
                    known[f["class"]] = f
                else:
                    fixed.append(f)
    return known, fixed


_corpus = core.load_corpus
core.load_known = load_known
core.load_corpus = lambda pid, suite: _corpus("C29", suite)
core.write_evidence = lambda pid, ev: json.dump(ev, open(os.path.join(tempfile.gettempdir(), "C29Ops.evidence.json"), "w"), indent=1, default=str)

mod = types.SimpleNamespace(
    ID="C29Ops", THEOREMS=L.THEOREMS_OPS, MODEL_FILES=L.MODEL_FILES_OPS, MODELLED=L.MODELLED_OPS, TRUSTED=L.TRUSTED_OPS,
    ASSUMPTIONS=["object ids are injective on the blobs of a case", "directory/file-conflict-free cases only are given to the model; the oracle runs on all"],
    RULE="see props/c29ops_lib.py", SUITES=[s for s in L.SUITES_OPS if a.suite in (None, s.name)])
replay = None
if a.replay:
    replay = json.load(open(a.replay))
    if replay.get("kind") == "no-failing-input-found":
        print(json.dumps(replay, indent=1))
        replay = None
sys.exit(core.run_property(mod, a.tier, a.seed, replay))
