"""C09 Corrupt or malicious packs never yield wrong objects (DESIGN.md §4.C09)."""
import struct
import zlib

from vf.core import Suite
from vf.gen import pick_weighted
from props import packlib as P
from props.C10 import sx
from props.C08 import MODES, MODEL_CAP, MODELLED as C08_MODELLED

ID = "C09"
THEOREMS = ["C09_sound", "C09_accepted_is_wellformed", "C09_delta_exact_length"]
MODEL_FILES = ["PackBytes.v", "Idx.v", "PackParse.v"]
MODELLED = C08_MODELLED + "; C09 uses the error paths of the same model (every Go error is the class `reject`)"
TRUSTED = [
    "C-impl: harness/cmd/c08 (packfile.Parser, six parser modes) vs Model/PackParse.v on every case",
    "direct oracle 1 (soundness): an independent python resolver (zlib + git's patch_delta) re-derives every object go-git "
    "announces and re-hashes it; oracle 2: git index-pack's verdict on the same bytes (rejects => go-git must reject)",
    "zlib: Go's compress/zlib table per case stands for the inflate section variable",
]
ASSUMPTIONS = [
    "inflate is a function of the input bytes at the content offset; the digest is collision-free on the generated cases "
    "(C09_sound states id = H(type, size, content), it does not claim H injective)",
]
RULE = ("valid packs (git pack-objects and hand-built) under 1-3 byte flips with and without a recomputed trailer, header-byte "
        "flips, truncations, object-count lies, trailing junk, bad trailer; hand-built packs: inflated length shorter/longer than "
        "declared, dangling and self-describing REF deltas, OFS distance 0 / beyond the start / into the header / into the middle "
        "of an entry, bad types 0 and 5, size and OFS varint overflow, deltas with wrong source size (and OFS/REF deltas whose header "
        "declares a base of real-1, real-k, real/2, 1, 0, real+1, real+k bytes with every copy inside min(declared, real), each "
        "parser mode in turn), out-of-range copy, opcode 0, "
        "truncated literal, trailing bytes, target size lies, tiny deltas, corrupt zlib streams (adler, preset dictionary, garbage); "
        "depth 4095/4096 chains in the thorough tier; non-trivial = the input differs from a valid pack")


def malicious(rng, kind, hs):
    """-> pack bytes"""
    b = P.PackBuilder(hs)
    blob = P.text(rng, rng.randrange(3, 10))
    blob2 = P.edit(rng, blob) + b"tail\n"
    o = b.add("blob", blob)
    if kind == "short-inflate":
        b.add("blob", blob2[:5], declared=rng.choice([6, 10, len(blob2)]))
    elif kind == "long-inflate":
        b.add("blob", blob2, declared=rng.choice([0, 1, len(blob2) - 1]))
    elif kind == "short-delta":
        d = P.mk_delta(blob, blob2)
        b.add_ofs(o, d, declared=len(d) + rng.choice([1, 5]))
    elif kind == "long-delta":
        d = P.mk_delta(blob, blob2)
        b.add_ofs(o, d, declared=len(d) - 1)
    elif kind == "dangling-ref":
        b.add_ref(P.oid(hs, "blob", b"absent"), P.mk_delta(b"absent", blob2))
    elif kind == "self-ref":
        b.add_ref(P.oid(hs, "blob", blob2), P.mk_delta(blob2, blob2, ops=[("copy", 0, len(blob2))]))
    elif kind == "ofs-zero":
        b.add_ofs(o, P.mk_delta(blob, blob2), neg=0)
    elif kind == "ofs-beyond":
        b.add_ofs(o, P.mk_delta(blob, blob2), neg=b.pos() + rng.choice([0, 1, 1000]))
    elif kind == "ofs-header":
        b.add_ofs(o, P.mk_delta(blob, blob2), neg=b.pos() - rng.randrange(1, 12))
    elif kind == "ofs-mid":
        b.add("blob", blob2)
        b.add_ofs(o, P.mk_delta(blob, blob2), neg=b.pos() - (o + rng.randrange(1, 5)))
    elif kind == "bad-type":
        b.add_raw(bytes([(rng.choice([0, 5]) << 4) | 3]) + P.deflate(b"abc"))
    elif kind == "size-overflow":
        b.add_raw(bytes([0xb0 | 5]) + b"\xff" * rng.choice([8, 9, 12]) + b"\x01" + P.deflate(b"abc"))
    elif kind == "ofs-overflow":
        d = P.mk_delta(blob, blob2)
        b.add_raw(P.entry_header(6, len(d)) + b"\xff" * rng.choice([9, 10, 12]) + b"\x01" + P.deflate(d))
    elif kind == "delta-srcsize":
        b.add_ofs(o, P.mk_delta(blob, blob2, src_size=len(blob) + rng.choice([-1, 1])))
    elif kind in SRC_LIE:
        # the delta header lies about the size of its base while every instruction stays inside min(declared, real):
        # only the `srcSz != base size` comparison of patchDeltaWriter can refuse these (git: size != src_size)
        _, how, lie = kind.split("-")
        real = len(blob)
        k = rng.randrange(2, real - 1)
        declared = {"m1": real - 1, "mk": real - k, "half": real // 2, "one": 1, "zero": 0, "p1": real + 1, "pk": real + k}[lie]
        lim = min(declared, real)
        if lim == 0:
            ops = [("ins", b"abc")]
        else:
            a = rng.randrange(0, lim)
            n = rng.randrange(1, lim - a + 1)
            ops = rng.choice([[("copy", 0, lim)], [("copy", a, n)], [("copy", 0, n), ("ins", b"xy"), ("copy", lim - 1, 1)]])
        tgt = sum(o[2] if o[0] == "copy" else len(o[1]) for o in ops)
        d = P.mk_delta(blob, b"", ops=ops, src_size=declared, tgt_size=tgt)
        if rng.random() < 0.5:
            b.add("blob", blob2)      # an unrelated entry between the base and the delta
        if how == "ofs":
            b.add_ofs(o, d)
        else:
            b.add_ref(P.oid(hs, "blob", blob), d)
    elif kind == "delta-copy-range":
        b.add_ofs(o, P.mk_delta(blob, blob2, ops=[("copy", len(blob) - 2, 5)], tgt_size=5))
    elif kind == "delta-cmd0":
        b.add_ofs(o, P.mk_delta(blob, blob2, ops=[("copy", 0, 3), ("raw", b"\x00"), ("ins", b"abc")], tgt_size=6))
    elif kind == "delta-trunc-literal":
        b.add_ofs(o, P.mk_delta(blob, blob2, ops=[("copy", 0, 3), ("raw", bytes([8]) + b"abc")], tgt_size=11))
    elif kind == "delta-trailing":
        b.add_ofs(o, P.mk_delta(blob, blob[:3], ops=[("copy", 0, 3), ("raw", b"\x01z")], tgt_size=3))
    elif kind == "delta-tgt-more":
        b.add_ofs(o, P.mk_delta(blob, blob2, ops=[("copy", 0, 3)], tgt_size=7))
    elif kind == "delta-tgt-less":
        b.add_ofs(o, P.mk_delta(blob, blob2, ops=[("copy", 0, 5)], tgt_size=3))
    elif kind == "delta-leb-overflow":
        b.add_ofs(o, b"\xff" * 10 + b"\x01" + P.leb(3) + b"\x03abc")
    elif kind == "tiny-delta":
        b.add_ofs(o, P.mk_delta(blob, b""))
    elif kind == "delta-empty":
        b.add_ofs(o, b"")
    elif kind == "zlib-adler":
        z = bytearray(P.deflate(blob2))
        z[-1] ^= 0x01
        b.add("blob", blob2, z=bytes(z))
    elif kind == "zlib-dict":
        z = bytearray(P.deflate(blob2))
        z[1] |= 0x20
        z[1] = (z[1] & 0xe0) | ((31 - ((z[0] * 256 + (z[1] & 0xe0)) % 31)) % 31)
        b.add("blob", blob2, z=bytes(z))
    elif kind == "zlib-garbage":
        b.add("blob", blob2, z=bytes(rng.randrange(256) for _ in range(12)))
    elif kind == "zlib-gap":
        b.add_raw(P.entry_header(3, len(blob2)) + P.deflate(blob2) + b"\x00\x01")
        b.add("blob", b"after the gap")
    elif kind == "count-more":
        return b.build(count=b.count + rng.choice([1, 2, 1000, 0xffffffff - b.count]))
    elif kind == "count-max":
        # the header announces 2^32-1 objects: nothing may be sized from it before the objects are seen
        return b.build(count=0xffffffff)
    elif kind == "count-less":
        b.add("blob", blob2)
        return b.build(count=b.count - 1)
    elif kind == "junk":
        b.add("blob", blob2)
        return b.build(extra=bytes(rng.randrange(256) for _ in range(rng.choice([1, 20, 21]))))
    elif kind == "trailer":
        return b.build(trailer=bytes(hs))
    elif kind == "version":
        return b.build(version=rng.choice([0, 1, 3, 1 << 24]))
    elif kind == "signature":
        return b.build(sig=rng.choice([b"PACX", b"pack", b"\0\0\0\0"]))
    elif kind == "short-file":
        return b.build()[:rng.choice([0, 1, 3, 4, 8, 11, 12, 13])]
    elif kind == "deep-ok" or kind == "deep-over":
        cur = blob
        for i in range(4095 if kind == "deep-ok" else 4096):
            nxt = cur[:20] + b"%d\n" % i
            o = b.add_ofs(o, P.mk_delta(cur, nxt))
            cur = nxt
    return b.build()


SRC_LIE = ["srclie-%s-%s" % (how, lie) for lie in ("m1", "mk", "half", "one", "zero", "p1", "pk") for how in ("ofs", "ref")]
SRC_QUICK = [k for k in SRC_LIE if k.split("-")[2] in ("m1", "mk", "zero", "p1")]    # the others: thorough tier only

HAND = ["short-inflate", "long-inflate", "short-delta", "long-delta", "dangling-ref", "self-ref", "ofs-zero", "ofs-beyond",
        "ofs-header", "ofs-mid", "bad-type", "size-overflow", "ofs-overflow", "delta-srcsize", "delta-copy-range", "delta-cmd0",
        "delta-trunc-literal", "delta-trailing", "delta-tgt-more", "delta-tgt-less", "delta-leb-overflow", "tiny-delta",
        "delta-empty", "zlib-adler", "zlib-dict", "zlib-garbage", "zlib-gap", "count-more", "count-max", "count-less", "junk", "trailer",
        "version", "signature", "short-file"] + SRC_QUICK


def mutate(rng, kind, pack, hs):
    b = bytearray(pack)
    body_end = len(b) - hs
    if kind in ("flip", "flip-fix"):
        for _ in range(rng.randrange(1, 4)):
            b[rng.randrange(0 if kind == "flip" else 8, len(b) if kind == "flip" else body_end)] ^= 1 << rng.randrange(8)
    elif kind == "hdr-fix":
        pp = P.PyPack(pack, hs)
        if pp.entries:
            e = rng.choice(pp.entries)
            b[e["off"] + rng.choice([0, 0, 1])] ^= 1 << rng.randrange(8)
    elif kind == "byte-fix":
        i = rng.randrange(12, body_end)
        b[i] = rng.randrange(256)
    elif kind == "trunc":
        b = b[:rng.randrange(len(b))]
        return bytes(b)
    elif kind == "trunc-fix":
        pp = P.PyPack(pack, hs)
        cut = rng.choice([e["end"] for e in pp.entries] + [rng.randrange(12, body_end)]) if pp.entries else 12
        b = b[:cut] + b"\0" * hs
    elif kind == "swap-fix":
        pp = P.PyPack(pack, hs)
        if len(pp.entries) >= 2:
            i = rng.randrange(len(pp.entries) - 1)
            e1, e2 = pp.entries[i], pp.entries[i + 1]
            b = b[:e1["off"]] + b[e2["off"]:e2["end"]] + b[e1["off"]:e1["end"]] + b[e2["end"]:]
    if kind.endswith("-fix"):
        return P.fix_trailer(bytes(b), hs)
    return bytes(b)


MUT = [(3, "flip"), (5, "flip-fix"), (3, "hdr-fix"), (3, "byte-fix"), (2, "trunc"), (2, "trunc-fix"), (2, "swap-fix")]


class Main(Suite):
    name = "main"
    go_cmd = "c08"
    coq_imports = "From GoGit Require Import Model.PackParse."
    quick_n = 72
    thorough_n = 480
    coq_chunk = 5

    def gen(self, rng, n, tier):
        repos = [P.GitRepo(rng, 20, ncommits=4), P.GitRepo(rng, 32, ncommits=3)]
        bases = []
        for r in repos:
            for _ in range(2 if tier == "quick" else 6):
                top = rng.randrange(0, r.ncommits - 1)
                bases.append((r.hs, r.pack(["main~%d" % top], rng.choice([0, 10]), rng.choice([1, 50]), rng.random() < 0.7)))
        packs = []
        forced = {}      # index in packs -> parser mode (the srclie buckets visit every mode in turn)
        rot = rng.randrange(len(MODES))
        for k in HAND:
            hs = 32 if rng.random() < 0.15 else 20
            if k in SRC_LIE:
                forced[len(packs)] = MODES[(rot + len(forced)) % len(MODES)]
            packs.append((k, hs, malicious(rng, k, hs)))
        if tier == "thorough":
            for k in SRC_LIE:
                for m in MODES:
                    hs = 32 if rng.random() < 0.15 else 20
                    forced[len(packs)] = m
                    packs.append((k, hs, malicious(rng, k, hs)))
            packs.append(("deep-ok", 20, malicious(rng, "deep-ok", 20)))
            packs.append(("deep-over", 20, malicious(rng, "deep-over", 20)))
        while len(packs) < n:
            if rng.random() < 0.25:
                k = rng.choice(HAND)
                hs = 32 if rng.random() < 0.15 else 20
                packs.append((k, hs, malicious(rng, k, hs)))
            else:
                hs, base = rng.choice(bases)
                k = pick_weighted(rng, MUT)
                packs.append((k, hs, mutate(rng, k, base, hs)))
        zts = P.ztables([p[2] if len(p[2]) <= MODEL_CAP else b"" for p in packs])
        cases = []
        for i, ((bucket, hs, pack), zt) in enumerate(zip(packs, zts)):
            mode = rng.choice(MODES)
            cases.append({"bucket": bucket, "kind": "parse", "fmt": "sha256" if hs == 32 else "sha1", "mode": forced.get(i, mode),
                          "pack": pack.hex(), "store": [], "zt": zt if len(pack) <= MODEL_CAP else None})
        return cases

    def model_expr(self, c):
        if c.get("zt") is None:
            return None
        hs = 32 if c["fmt"] == "sha256" else 20
        return 'c08_parse %d "%s" %s []' % (hs, c["pack"], P.coq_ztable(c["zt"]))

    def key(self, c):
        return c["pack"] + c["mode"]

    def show(self, c):
        d = dict(c)
        d.pop("zt", None)
        return d

    def oracle(self, ctx, cases, impl, model):
        fails = {}
        accepted = rejected_by_git = 0
        for c in cases:
            r = impl.get(c["id"])
            if r is None:
                fails[c["id"]] = "no reply"
                continue
            if r.get("panic"):
                continue
            t = sx(r["out"])
            if not (isinstance(t, list) and t and t[0] == "ok"):
                continue   # rejecting is always allowed by C09
            accepted += 1
            hs = 32 if c["fmt"] == "sha256" else 20
            pack = bytes.fromhex(c["pack"])
            rows = t[2]
            # 1. soundness: every announced object re-derived independently hashes to its name
            pp = P.PyPack(pack, hs)
            if not pp.error:
                short = [e for e in pp.entries if len(e["data"]) != e["size"]]
                if short:
                    fails[c["id"]] = "accepted a pack whose entry at offset %d inflates to %d bytes but declares %d" % (
                        short[0]["off"], len(short[0]["data"]), short[0]["size"])
                    continue
                res = {x[0]: x for x in pp.resolve()}
                bad = None
                for row in rows:
                    off = int(row[0])
                    if off in res and (row[3] != "x" + res[off][3].hex() or row[1] != res[off][1] or int(row[2]) != len(res[off][2])):
                        bad = "object at offset %d is announced as %s %s (%s bytes) but its content is a %s of %d bytes hashing to %s" % (
                            off, row[1], row[3][1:], row[2], res[off][1], len(res[off][2]), res[off][3].hex())
                        break
                if bad:
                    fails[c["id"]] = bad
                    continue
            # 2. whatever git index-pack rejects must be rejected
            rc, err, _, _, _ = P.git_index_pack(ctx.tmp, pack, hs, "m%d" % c["id"])
            if rc != 0:
                rejected_by_git += 1
                fails[c["id"]] = "git index-pack rejects the pack (%s); go-git accepts it" % err.replace("\n", " / ")[:160]
        ctx.notes.append("accepted by go-git: %d of %d cases; of these rejected by git: %d" % (accepted, len(cases), rejected_by_git))
        return fails

    def finding_class(self, case, reason, reply):
        if "git index-pack rejects" in reason:
            if "junk at the end" in reason or "garbage at end" in reason:
                return "junk-after-trailer"
            if case["bucket"] == "tiny-delta" and "failed to apply delta" in reason:
                return "tiny-delta"
        return None


SUITES = [Main()]
