"""C53 Decoders of untrusted input never crash, hang or over-allocate (DESIGN.md §4.C53) — partial by design."""
import os
import random
import re
from vf import core
from vf.core import Suite, coq_hex, coq_N
from vf.gen import rbytes, pick_weighted, GRID
from props import C34, C35, C10, C06, C04
from props import C53gen as G

ID = "C53"
THEOREMS = ["C53_pktline_total", "C53_pktline_no_oob", "C53_sideband_total", "C53_packp_lines_bound", "C53_advrefs_alloc",
            "C53_leb128_total_no_oob", "C53_varint_consumed",
            "C53_idx_total", "C53_idx_no_oob", "C53_idx_alloc", "C53_revfile_alloc",
            "C53_delta_total", "C53_delta_no_oob", "C53_delta_alloc",
            "C53_tree_total", "C53_tree_no_oob", "C53_tree_alloc",
            "C53_index_total", "C53_index_no_oob", "C53_index_alloc",
            "C53_pack_total", "C53_pack_visit_total", "C53_pack_no_oob", "C53_pack_alloc",
            "C53_wild_total", "C53_wild_no_oob",
            "C53_rev_total", "C53_rev_no_oob", "C53_rev_alloc",
            "C53_graph_total", "C53_graph_no_oob", "C53_graph_alloc",
            "C53_objfile_total", "C53_objfile_no_oob",
            "C53_lines_total", "C53_ident_no_oob", "C53_ident_alloc", "C53_reflog_alloc"]
MODEL_FILES = ["PktLine.v", "Sideband.v", "Packp.v", "C53Varint.v", "PackBytes.v", "Idx.v"]
LEVEL_TEXT = ("PARTIAL: Coq theorems (" + ", ".join(THEOREMS) + ") prove, for ALL inputs, termination within the stated fuel "
              "(or, where a model merges fuel exhaustion with a rejection, that more fuel never changes the answer), in-range slice / "
              "index expressions under the code's own checks (a boundary index equal to the table length is rejected, not read) and "
              "input-proportional allocation for: pkt-line Read/Scanner, sideband Demuxer/Muxer, LEB128 and entry-size varints, the line "
              "source of every packp v0 decoder, AdvRefs counts, the idx/rev readers (MemoryIndex, LazyIndex, mmap.PackScanner, "
              "Decoder.Decode), the three delta appliers, Tree.Decode, the index (DIRC) decoder with its TREE/REUC/EOIE extensions, the "
              "pack scanner, delta command loop and depth-first delta resolution, wildmatch, the revision parser, the commit-graph file reader, the loose-object "
              "header, the commit/tag line scanner with Signature.Decode and reflog.Decode — on the models of those decoders written for C01 C02 C04 "
              "C06 C08 C10 C12 C47 C49 C51 (imported, never copied).  Every other piece of decoding code (all 46 repository Fuzz* entry "
              "points, 44 mirrored, plus 7 decode-then-every-lookup targets) is exercised: seeds, mutated / cross-fed seeds, random "
              "bytes AND structurally valid files with every length / offset / count field on {0, max-1, max, max+1}, under recover, a "
              "deadline and an allocation budget")
MODELLED = ("plumbing/format/packfile/util: DecodeLEB128, DecodeLEB128FromReader, VariableLengthSize (Model/C53Varint.v, constants by gotrans); "
            "pkt-line, sideband and the packp v0 decoders through the C34/C35 models; through the models of other properties: idxfile "
            "MemoryIndex / LazyIndex / Decoder, mmap.PackScanner, revfile (Model/Idx.v — impl = model re-checked here on the idx boundary "
            "family through harness/cmd/c10), patchDelta / ReaderFromDelta / patchDeltaWriter (Model/Delta.v), Tree.Decode (Model/TreeObj.v), "
            "index.Decoder (Model/IndexFile.v), packfile Scanner / parser bookkeeping / delta command loop (Model/PackParse.v), wildmatch "
            "(Model/Gitignore.v), internal/revision parser (Model/Revision.v), commitgraph fileIndex (Model/CommitGraph.v), objfile.Reader.Header "
            "(Model/ObjFile.v), the commit/tag line scanner and Signature.Decode (Model/ObjLines.v, Model/Ident.v), reflog.Decode (Model/Reflog.v), the parser's depth-first delta resolution (visit). Not modelled / no theorem "
            "(exercised only): packfile.Packfile read paths, refname, "
            "capability lists and protocol v2 messages, config (gcfg), URL parser, zlib, bufio; x/plumbing/worktree FuzzAdd/FuzzOpen are not "
            "mirrored (they need the fixtures module)")
TRUSTED = [
    "C-impl: harness/cmd/c53 varint entry points vs Model/C53Varint.v; harness/cmd/c34 and c35 on malformed streams vs Model/PktLine.v, Model/Packp.v",
    "C-impl (boundary): harness/cmd/c10 (MemoryIndex, LazyIndex, PackScanner) vs Model/Idx.v on the idx/rev boundary family of props/C53gen.py",
    "exercise: harness/cmd/c53 lookups.go drives every accessor of a decoded idx / pack / index / commit-graph / object / delta with the names, "
    "offsets and indices found in the input, their neighbours and the values at and one past each table's length; props/C53gen.py builds the files "
    "(python struct/zlib/hashlib: git's documented layouts, checksums recomputed)",
    "exercise: harness/cmd/c53 mirrors the bodies of the repository's Fuzz* functions (call list checked against `func Fuzz` in the working tree on every run) and runs them under recover, a per-input deadline and a runtime.MemStats allocation budget",
]
ASSUMPTIONS = ["a panic in a goroutine started by library code, or a runtime fatal error, kills the harness process and is reported as a missing reply",
               "allocation is measured as the TotalAlloc delta of a single-threaded run; budget = 48 MiB + 2 KiB per input byte "
               "(+ 2 MiB per API call for the decode-then-every-lookup targets, which make hundreds of calls on one input)",
               "a decoder that needs more than the deadline (20 s) on an input of a few KiB is reported as a hang"]
RULE = ("boundary cases = structurally valid idx/rev, pack (+ idx over it), delta, index v2-v4, commit-graph, loose object, tree, commit/tag/"
        "reflog, pkt-line / packp / sideband inputs in which ONE length / offset / count / index field takes {0, max-1, max, max+1} (and the "
        "integer-width limits) relative to the real size of the table or buffer it refers to, each run through the format's fuzz entry point and "
        "through the decode-then-every-lookup target; fuzz cases = (Fuzz* entry point, arguments) from the f.Add seeds of the repository, their mutations (truncation at every third byte, bit "
        "flips, byte insertion, length-field grids, duplication), seeds of other targets, and random bytes; varint cases: all continuation "
        "patterns up to 11 bytes; framing cases: the malformed buckets of C34/C35; non-trivial = non-empty input; distinct by content")

DEADLINE_MS = 20000
BUDGET_BASE = 48 << 20
BUDGET_PER_BYTE = 2048
BUDGET_PER_CALL = 2 << 20      # "decode, then every lookup" targets: each API call may inflate a whole delta chain (<= 50 zlib readers)


def repo_fuzz_targets():
    out = set()
    root = core.REPO
    for d, _, files in os.walk(root):
        if "/.git" in d:
            continue
        for fn in files:
            if fn.endswith("_test.go"):
                try:
                    src = open(os.path.join(d, fn), errors="replace").read()
                except OSError:
                    continue
                for m in re.finditer(r"^func (Fuzz\w+)\(", src, re.M):
                    out.add(os.path.relpath(d, root).replace("\\", "/") + "." + m.group(1))
    return out


def mutations(rng, b, k):
    """k mutated copies of byte string b"""
    out = []
    for _ in range(k):
        m = rng.randrange(9)
        x = bytearray(b)
        if m == 0 and x:
            x = x[:rng.randrange(len(x))]
        elif m == 1 and x:
            i = rng.randrange(len(x))
            x[i] ^= 1 << rng.randrange(8)
        elif m == 2 and x:
            i = rng.randrange(len(x))
            x[i] = rng.choice([0, 1, 0x7f, 0x80, 0xff, 0x0a, 0x20])
        elif m == 3:
            i = rng.randrange(len(x) + 1)
            x[i:i] = rbytes(rng, rng.randrange(1, 5))
        elif m == 4 and len(x) >= 4:       # a 32-bit big-endian field replaced by a boundary value
            i = rng.randrange(len(x) - 3)
            x[i:i + 4] = (rng.choice(GRID + [0x7fffffff, 0xffffffff, 0x00800003]) & 0xffffffff).to_bytes(4, "big")
        elif m == 5 and x:
            i = rng.randrange(len(x))
            x = x[:i] + x[i:] * 2
        elif m == 6 and x:
            i = rng.randrange(len(x))
            del x[i:i + rng.randrange(1, 4)]
        elif m == 7 and x:
            i = rng.randrange(len(x))
            x[i:i + 1] = bytes([0x80 | x[i]]) + b"\x80" * rng.randrange(0, 10)   # long continuation runs
        else:
            x += rbytes(rng, rng.randrange(1, 9))
        out.append(bytes(x[:8192]))
    return out


class Fuzz(Suite):
    """every Fuzz* entry point, no model: the oracle is "returns, in time, within the allocation budget" """
    name = "fuzz"
    go_cmd = "c53"
    quick_n = 1300
    thorough_n = 12000

    def gen(self, rng, n, tier):
        info = core.run_impl(self.go_cmd, [{"id": 0, "target": "__list__"}, {"id": 1, "target": "__seeds__"}])
        targets = ((info.get(0) or {}).get("extra") or {}).get("targets") or []
        self.unsupported = ((info.get(0) or {}).get("extra") or {}).get("unsupported") or {}
        seeds = ((info.get(1) or {}).get("extra") or {}).get("seeds") or {}
        self.targets = targets
        cases = []
        allseeds = [a for t in sorted(seeds) for a in seeds[t]]
        for t in targets:                                   # every seed of every target, once
            for a in seeds.get(t, []):
                cases.append({"bucket": "seed", "target": t, "args": a})
            cases.append({"bucket": "empty", "target": t, "args": []})
        while len(cases) < n and targets:
            t = rng.choice(targets)
            own = seeds.get(t) or [[""]]
            b = pick_weighted(rng, [(6, "mutated"), (2, "cross"), (2, "random")])
            if b == "mutated":
                base = rng.choice(own)
                args = [mutations(rng, bytes.fromhex(x), 1)[0].hex() if rng.random() < 0.8 else x for x in base]
            elif b == "cross" and allseeds:
                other = rng.choice(allseeds)
                args = [rng.choice(other) for _ in range(max(1, len(own[0])))]
            else:
                args = [rbytes(rng, rng.choice([1, 2, 3, 8, 20, 64, 300])).hex() for _ in range(max(1, len(own[0])))]
            cases.append({"bucket": b, "target": t, "args": args})
        for c in cases:
            c["deadline_ms"] = DEADLINE_MS
        return cases

    def nontrivial(self, c):
        return any(c.get("args") or [])

    def oracle(self, ctx, cases, impl, model):
        fails = {}
        missing = sorted(c["id"] for c in cases if impl.get(c["id"]) is None)
        if missing:     # cases run in order: the first one without a reply killed the process, the later ones never ran
            fails[missing[0]] = "the harness died on this input (fatal error / panic outside the decoder's goroutine)"
        for c in cases:
            r = impl.get(c["id"])
            if r is None:
                continue
            ex = r.get("extra") or {}
            n = sum(len(a) // 2 for a in c.get("args") or [])
            if r["out"] != "done":
                fails[c["id"]] = "%s on %s: %s" % (r["out"], c["target"], (ex.get("panic") or "")[:300])
            elif ex.get("alloc", 0) > BUDGET_BASE + BUDGET_PER_BYTE * n + BUDGET_PER_CALL * ex.get("calls", 0):
                fails[c["id"]] = "%s allocated %d bytes on %d input bytes" % (c["target"], ex.get("alloc"), n)
        return fails

    def extra(self, ctx, cases, impl, model):
        repo = repo_fuzz_targets()
        mirrored = set(getattr(self, "targets", []))
        unsup = set(getattr(self, "unsupported", {}))
        missing = sorted(repo - mirrored - unsup)
        if missing:
            ctx.notes.append("Fuzz entry points of the working tree without a mirror in harness/cmd/c53: %s" % missing)
        worst = sorted(((r.get("extra") or {}).get("alloc", 0), i) for i, r in impl.items())[-1:] or [(0, None)]
        return {"fuzz_targets_in_repo": len(repo), "mirrored": len(mirrored & repo), "not_mirrored": sorted(unsup | set(missing)),
                "max_alloc_bytes": worst[0][0]}


class Varint(Suite):
    name = "varint"
    go_cmd = "c53"
    coq_imports = "From GoGit Require Import Model.C53Varint."
    quick_n = 170
    thorough_n = 2000
    coq_chunk = 70

    def gen(self, rng, n, tier):
        cases = []
        # every length of an all-continuation run, with and without a terminator
        for k in range(0, 12):
            for term in (None, 0x00, 0x01, 0x7f):
                body = bytes([0x80 | rng.randrange(128) for _ in range(k)]) + (bytes([term]) if term is not None else b"")
                for fn in ("leb", "leb_reader", "vls"):
                    cases.append({"bucket": "runs", "kind": "varint", "fn": fn, "hex": (body + rbytes(rng, rng.randrange(3))).hex(),
                                  "first": rng.choice([0x0f, 0x8f, 0x90, 0xff, 0x7f])})
        while len(cases) < n:
            fn = rng.choice(["leb", "leb_reader", "vls"])
            k = rng.randrange(0, 12)
            body = bytes(rng.choice([0x80, 0xff, 0x81, rng.randrange(256)]) for _ in range(k))
            cases.append({"bucket": "random", "kind": "varint", "fn": fn, "hex": body.hex(), "first": rng.randrange(256)})
        return cases

    def model_expr(self, c):
        h = coq_hex(bytes.fromhex(c["hex"]))
        if c["fn"] == "leb":
            return "c53_leb %s" % h
        if c["fn"] == "leb_reader":
            return "c53_leb_reader %s" % h
        return "c53_vls %s %s" % (coq_N(c["first"]), h)

    def oracle(self, ctx, cases, impl, model):
        """independent reference: value = sum of 7-bit groups, at most 9 (LEB128) groups, rest = what follows"""
        fails = {}
        for c in cases:
            r = impl.get(c["id"])
            if r is None or r.get("panic"):
                fails[c["id"]] = "no reply / panic"
                continue
            data = bytes.fromhex(c["hex"])
            want = self.ref(c["fn"], c["first"], data)
            if r["out"] != want:
                fails[c["id"]] = "%s(%s) = %s, reference %s" % (c["fn"], c["hex"], r["out"], want)
        return fails

    @staticmethod
    def ref(fn, first, data):
        if fn == "vls":
            v, shift = first & 0x0f, 4
            if not first & 0x80:
                return "( ok %d %d )" % (v, len(data))
            for i, b in enumerate(data):
                if shift > 57:
                    return "( err overflow )"
                v |= (b & 0x7f) << shift
                if not b & 0x80:
                    return "( ok %d %d )" % (v & (2 ** 64 - 1), len(data) - i - 1)
                shift += 7
            return "( err overflow )" if shift > 57 else "( err eof )"
        if fn == "leb" and not data:
            return "( ok 0 0 )"
        v = 0
        for i, b in enumerate(data):
            if i * 7 > 57:
                return "( err overflow )"
            v |= (b & 0x7f) << (7 * i)
            if not b & 0x80 or (fn == "leb" and i + 1 == len(data)):
                return "( ok %d %d )" % (v, len(data) - i - 1)
        return "( err overflow )" if len(data) * 7 > 57 else "( err eof )"


class Framing(C34.Pkt):
    """the malformed pkt-line buckets of C34 again, compared with the model whose totality is proved"""
    name = "framing"
    quick_n = 120
    thorough_n = 1200

    def gen(self, rng, n, tier):
        cases = []
        while len(cases) < n:
            b = pick_weighted(rng, [(5, "raw"), (3, "scan"), (2, "peek")])
            data = C34.raw_stream(rng)
            if rng.random() < 0.3:
                data = mutations(rng, data, 1)[0]
            c = {"bucket": "framing-" + b, "kind": b, "pieces": C34.lit(data), "chunks": C34.rchunks(rng, len(data))}
            if b == "raw":
                c["readline"] = rng.random() < 0.3
                c["bufsz"] = 65520 if c["readline"] else rng.choice([0, 1, 3, 4, 5, 6, 8, 12, 16, 65520])
            elif b == "peek":
                c["bufsize"] = rng.choice([16, 17, 20, 32, 4096])
            cases.append(c)
        return cases


class Messages(C35.Msgs):
    """malformed packp streams (derived from go-git's own encodings) against the model"""
    name = "messages"
    quick_n = 140
    thorough_n = 1500

    def gen(self, rng, n, tier):
        cases = [c for c in super().gen(rng, 3 * n, tier) if c["kind"] != "rt"]
        return cases[:n]

    def oracle(self, ctx, cases, impl, model):
        return {c["id"]: "no reply / panic" for c in cases if impl.get(c["id"]) is None or impl[c["id"]].get("panic")}

    def finding_class(self, c, reason, reply):
        return None

    def extra(self, ctx, cases, impl, model):
        return {}


class Boundary(Fuzz):
    """structurally VALID files of every binary format with each length / offset / count / index field on the values
    {0, max-1, max, max+1} relative to the real size of what it refers to (props/C53gen.py), run through the fuzz entry
    point of the format AND through the "decode, then every lookup API" targets of harness/cmd/c53/lookups.go.
    The whole family is enumerated in both tiers (n is ignored); oracle as for the fuzz suite."""
    name = "boundary"
    go_cmd = "c53"
    quick_n = 0
    thorough_n = 0

    def gen(self, rng, n, tier):
        cases = []

        def add(bucket, target, args):
            cases.append({"bucket": bucket, "target": target, "args": [a.hex() for a in args], "deadline_ms": DEADLINE_MS})
        for b, idx, rev, hs in G.idx_cases(rng, tier):
            add(b, "verif/idx.Lookups", [idx, rev, bytes([hs])])
            if hs == 20:
                add(b, "plumbing/format/idxfile.FuzzMemoryIndex", [idx])
                add(b, "plumbing/format/idxfile.FuzzLazyIndex", [idx, rev])
                if b.startswith("rev-") or b == "idx-valid":
                    add(b, "plumbing/format/revfile.FuzzDecode", [rev])
        for b, pack, idx in G.pack_cases(rng, tier):
            add(b, "verif/pack.Lookups", [pack, idx, bytes([20])])
            if not idx:
                add(b, "plumbing/format/packfile.FuzzParser", [pack])
                add(b, "plumbing/format/packfile.FuzzScanner", [pack])
        for b, src, d in G.delta_cases(rng, tier):
            add(b, "verif/delta.Appliers", [src, d])
            add(b, "plumbing/format/packfile.FuzzPatchDelta", [src, d])
        for b, data in G.index_cases(rng, tier):
            add(b, "verif/index.Lookups", [data, bytes([20])])
            add(b, "plumbing/format/index.FuzzDecoder", [data])
        for b, data in G.cg_cases(rng, tier):
            add(b, "verif/commitgraph.Lookups", [data])
            add(b, "plumbing/format/commitgraph.FuzzOpenFileIndex", [data])
        for b, data in G.objfile_cases(rng, tier):
            add(b, "plumbing/format/objfile.FuzzReader", [data])
        for b, data in G.tree_cases(rng, tier):
            add(b, "verif/object.Lookups", [bytes([1]), data])
            add(b, "plumbing/object.FuzzTreeDecode", [data])
        for b, kind, data in G.ident_cases(rng, tier):
            if kind is None:
                add(b, "plumbing/format/reflog.FuzzDecode", [data])
            else:
                add(b, "verif/object.Lookups", [bytes([kind]), data])
                add(b, "plumbing/object.FuzzCommitDecode" if kind == 0 else "plumbing/object.FuzzTagDecode", [data])
        for b, t, args in G.pkt_cases(rng, tier):
            add(b, t, args)
        return cases

    def extra(self, ctx, cases, impl, model):
        # which decoders ACCEPTED their boundary files (a family whose valid member is rejected has a broken builder)
        acc, per = {}, {}
        for c in cases:
            r = impl.get(c["id"]) or {}
            m = ((r.get("extra") or {}).get("marks")) or {}
            fam = c["bucket"].split("-")[0]
            per[fam] = per.get(fam, 0) + 1
            if m:
                acc[fam] = acc.get(fam, 0) + 1
            if c["bucket"].endswith("-valid") and c["target"].startswith("verif/") and not m:
                ctx.notes.append("boundary builder: the %s file of target %s was not accepted by its decoder" % (c["bucket"], c["target"]))
        return {"boundary_cases_by_family": per, "boundary_cases_accepted_by_a_decoder": acc}


class IdxModel(C10.File):
    """the idx / rev boundary family once more through harness/cmd/c10 and Model/Idx.v (impl = model on every reader,
    C10's oracle): ties the C53_idx_* theorems to the code on exactly the inputs where an off-by-one would show"""
    name = "idxmodel"
    quick_n = 0
    thorough_n = 0
    coq_chunk = 12

    def gen(self, rng, n, tier):
        cases = []
        for b, idx, rev, hs in G.idx_cases(rng, tier):
            if tier == "quick" and b not in ("idx-o64-slot", "idx-o64-table-len", "idx-valid", "rev-position"):
                continue
            lay = C10.layout(idx, hs)
            ents = [(t[0], t[1] if t[1] is not None else 0, t[2]) for t in lay["tab"]] if lay else []
            qs = [{"q": "offset", "h": e[0].hex()} for e in ents] + [{"q": "crc", "h": e[0].hex()} for e in ents[:2]]
            qs += [{"q": "findhash", "o": str(e[1])} for e in ents[:3]]
            qs += [{"q": "entries"}, {"q": "count"}, {"q": "prefix", "p": ents[0][0][:1].hex() if ents else ""}]
            if len({e[1] for e in ents}) == len(ents):
                # with two entries on one offset (a slot referenced twice) the order inside the run is the rev file's for LazyIndex
                # and sort.Sort's for MemoryIndex; harness/cmd/c10 canonicalises it, Model/Idx.v does not: not compared
                qs.append({"q": "byoffset"})
            pack = idx[-2 * hs:-hs]
            cases.append({"bucket": b, "kind": "file", "hs": hs, "idx": idx.hex(), "rev": rev.hex(), "pack": pack.hex(), "queries": qs})
        return cases

    def nontrivial(self, c):
        return True

    def oracle(self, ctx, cases, impl, model):
        """C10's oracle; a failure inside one of C10's OWN known-finding classes (e.g. LazyIndex never checks the idx size) is a
        matter of C10, reported there: it is not a crash, hang or over-allocation"""
        fails = C10.File.oracle(self, ctx, cases, impl, model)
        known10, _ = core.load_known("C10")
        byid = {c["id"]: c for c in cases}
        return {i: why for i, why in fails.items()
                if C10.File.finding_class(self, byid[i], why, impl.get(i)) not in known10}

    def finding_class(self, case, reason, reply):
        return None


def _panic_only(cases, impl):
    return {c["id"]: "no reply / panic" for c in cases if impl.get(c["id"]) is None or impl[c["id"]].get("panic")}


class DeltaModel(C06.Apply):
    """the delta boundary family through harness/cmd/c06 (all five appliers) and Model/Delta.v: impl = model ties the
    C53_delta_* theorems to the code on the copy/insert ranges that end at, one before and one past their buffers"""
    name = "deltamodel"
    coq_imports = "From GoGit Require Import Model.Delta."
    quick_n = 0
    thorough_n = 0

    def gen(self, rng, n, tier):
        cases = []
        for b, src, d in G.delta_cases(rng, "quick"):
            if len(src) <= 300:
                cases.append({"bucket": b, "kind": "apply", "src": C06.D.seg(src), "delta": C06.D.seg(d), "chunk": 0})
        return cases

    def oracle(self, ctx, cases, impl, model):
        return _panic_only(cases, impl)

    def finding_class(self, case, reason, reply):
        return None

    def extra(self, ctx, cases, impl, model):
        return {}


class TreeModel(C04.Main):
    """the tree boundary family through harness/cmd/c04 and Model/TreeObj.v (Tree.Decode)"""
    name = "treemodel"
    coq_imports = "From GoGit Require Import Model.TreeObj."     # only files of the C53 closure (Spec/GitTree.v is not)
    quick_n = 0
    thorough_n = 0

    def gen(self, rng, n, tier):
        return [{"bucket": b, "op": "dec", "raw": data.hex()} for b, data in G.tree_cases(rng, tier)]

    def oracle(self, ctx, cases, impl, model):
        return _panic_only(cases, impl)

    def finding_class(self, case, reason, reply):
        return None

    def extra(self, ctx, cases, impl, model):
        return {}


SUITES = [Fuzz(), Boundary(), IdxModel(), DeltaModel(), TreeModel(), Varint(), Framing(), Messages()]
