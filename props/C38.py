"""C38 Push transfers complete history and respects update rules (DESIGN.md §4.C38)."""
import json
import re
from vf.core import Suite, coq_list, coq_N, coq_bool, coq_hex
from vf.gen import pick_weighted
from props.C37 import World, gen_world, finish_case, coq_store, CaseWorld, reach, ancestors, mutate_tree

ID = "C38"
THEOREMS = ["C38_rules", "C38_ff_partial", "C38_shallow_ff_refuted", "C38_lease", "C38_objects_complete", "C38_duplicate_dst_refuted"]
MODEL_FILES = ["RefSpec.v", "RevList.v", "PushRules.v"]
MODELLED = ("remote.go: PushOptions.Validate (refspec part), Remote.sendPack (delete detection, Force rewriting, command "
            "construction, haves = advertised hashes + shallows, revlist.Objects call), addReferencesToUpdate, "
            "addOrUpdateReferences, addReferenceIfRefSpecMatches, addObject, deleteReferences (explicit and prune), "
            "checkForceWithLease, checkTagUpdate, checkFastForwardUpdate, isFastForward (pre-order walk, shallow relaxation), "
            "objectsToPush, referencesToHashes; config/refspec.go Validate/Src/Dst/Match/IsWildcard/IsForceUpdate/IsDelete/"
            "Reverse (Model/RefSpec.v, Model/PushRules.v, Model/RevList.v). Not modelled, exercised only: addReachableTags "
            "(FollowTags), RequireRemoteRefs, updateRemoteReferenceStorage, the pack encoder, transports and the "
            "receive-pack servers (suite `wire`)")
LEVEL_NOTE = ("partial by design (DESIGN.md §4.C38): the theorems cover the decision logic of Remote.sendPack on the model — every "
              "command is a requested update carrying the advertised old value and is forced, lease-covered, or passes the tag and "
              "fast-forward rules (fast-forward = ancestry in a non-shallow repository; the shallow relaxation and duplicate "
              "destinations are refuted with witnesses), deletions are explicit or pruned, the pack covers the pushed history (C37) — "
              "tied to remote.go by differential execution through a recording transport; the wire, the receive-pack servers and "
              "FollowTags are exercised (suite wire), not proved. trusted: Coq 8.16.1 kernel; the correspondence harness; git 2.39.5")
TRUSTED = [
    "C-impl: Remote.PushContext driven through a recording transport (client.WithTransport) vs Model/PushRules.push: sorted command list, packed object set, error class",
    "direct oracle: an independent python statement of the update rules (requested updates from refspecs, fast-forward by ancestry in the generated DAG, lease, tag, delete/prune rules) evaluated on the commands and pack the implementation produced",
    "suite wire: go-git client -> go-git server (file transport) and go-git client -> git receive-pack (spawned), final remote refs via git for-each-ref and git fsck --connectivity-only",
]
ASSUMPTIONS = [
    "the remote's advertisement is what the model is given as remote refs; the server applies the commands it receives (C39)",
    "the receiver holds everything reachable from the references it advertised (C37 contract)",
]
RULE = ("case = local object store (C37 generator) + local refs (branches, tags, remote-tracking, symbolic HEAD) + advertised remote "
        "refs (equal / behind / ahead / diverged / unknown object / absent / remote-only) + 1-3 refspecs (exact, wildcard, forced, "
        "delete, object-hash source, overlapping) x Force/Prune/ForceWithLease (none, unnamed, this ref, another ref, explicit hash "
        "right/stale)/delete-refs capability; non-trivial = at least one requested update that is not a plain creation")


def hx(s):
    return (s if isinstance(s, bytes) else s.encode()).hex()


BRANCHES = ["main", "dev", "feat/x", "rel"]
TAGN = ["v1", "v2"]
SPECS = ["refs/heads/*:refs/heads/*", "+refs/heads/*:refs/heads/*", "refs/heads/main:refs/heads/main",
         "+refs/heads/main:refs/heads/main", "refs/heads/dev:refs/heads/dev", "refs/heads/dev:refs/heads/other",
         "refs/heads/main:refs/heads/other", ":refs/heads/old", ":refs/heads/dev", "refs/tags/*:refs/tags/*",
         "+refs/tags/*:refs/tags/*", "refs/tags/v1:refs/tags/v1", "refs/heads/feat/*:refs/heads/feat/*",
         "refs/heads/*:refs/heads/mirror/*", "refs/heads/d*:refs/heads/x*y", "refs/heads/rel:refs/tags/v2",
         "HEAD:refs/heads/main", "refs/heads/nonexistent:refs/heads/main", "refs/*:refs/*"]
BAD_SPECS = ["refs/heads/main", "a:b:c", "refs/heads/*:refs/heads/main", "refs/heads/main:", "refs/heads/**:refs/heads/**"]


def gen_push(rng, bucket):
    w, commits, tags, trees_pool = gen_world(rng, "random" if bucket != "chainy" else "chain")
    # make sure there is some divergence material
    def pick_commit():
        return rng.choice(commits)
    local, remote = [], []
    shallow = []
    phantom = [w.phantom(b"remote%d" % i) for i in range(2)]
    for b in BRANCHES:
        if rng.random() < 0.75:
            lc = pick_commit()
            local.append(["refs/heads/" + b, "h", lc])
            r = rng.random()
            anc = sorted(ancestors(w, [lc]) - {lc})
            desc = [c for c in commits if lc in ancestors(w, [c]) and c != lc]
            if r < 0.2:
                pass                                  # absent remotely: creation
            elif r < 0.3:
                remote.append(["refs/heads/" + b, "h", lc])          # up to date
            elif r < 0.55 and anc:
                remote.append(["refs/heads/" + b, "h", rng.choice(anc)])   # fast-forward
            elif r < 0.65 and desc:
                remote.append(["refs/heads/" + b, "h", rng.choice(desc)])  # local is behind
            elif r < 0.9:
                remote.append(["refs/heads/" + b, "h", pick_commit()])      # anything (often diverged)
            else:
                remote.append(["refs/heads/" + b, "h", rng.choice(phantom)])  # object unknown locally
            # remote-tracking ref
            r = rng.random()
            if r < 0.5 and remote and remote[-1][0] == "refs/heads/" + b:
                local.append(["refs/remotes/origin/" + b, "h", remote[-1][2]])
            elif r < 0.75:
                local.append(["refs/remotes/origin/" + b, "h", pick_commit()])
        elif rng.random() < 0.5:
            remote.append(["refs/heads/" + b, "h", pick_commit()])          # remote only (prune material)
    if rng.random() < 0.5:
        remote.append(["refs/heads/old", "h", pick_commit()])
    if rng.random() < 0.3:
        remote.append(["refs/heads/other", "h", pick_commit()])
    for t in TAGN:
        if rng.random() < 0.5:
            tgt = rng.choice(tags) if tags and rng.random() < 0.5 else pick_commit()
            local.append(["refs/tags/" + t, "h", tgt])
            r = rng.random()
            if r < 0.3:
                remote.append(["refs/tags/" + t, "h", tgt])
            elif r < 0.6:
                remote.append(["refs/tags/" + t, "h", pick_commit()])
    if rng.random() < 0.6:
        local.append(["HEAD", "s", "refs/heads/main"])
    if rng.random() < 0.3:
        remote.append(["HEAD", "s", "refs/heads/main"])
    if rng.random() < 0.1:
        remote.append(["refs/heads/symr", "s", "refs/heads/main"])
        local.append(["refs/heads/symr", "h", pick_commit()])
    # refspecs
    nspec = pick_weighted(rng, [(5, 1), (3, 2), (1, 3), (1, 0)])
    specs = [rng.choice(SPECS) for _ in range(nspec)]
    if bucket == "hashsrc" or rng.random() < 0.08:
        o = rng.choice([x for x in w.objs if x["present"]] + [w.get(phantom[0])])
        specs.append(("+" if rng.random() < 0.3 else "") + o["hash"] + ":refs/heads/" + rng.choice(["new", "main", "dev"]))
    if bucket == "overlap":
        specs = rng.choice([["refs/heads/*:refs/heads/*", "refs/heads/main:refs/heads/main"],
                            ["refs/heads/main:refs/heads/x", "refs/heads/dev:refs/heads/x"],
                            ["refs/heads/*:refs/heads/*", "+refs/heads/*:refs/heads/*"],
                            ["refs/heads/main:refs/heads/dev", "refs/heads/*:refs/heads/*"]])
    if bucket == "invalid":
        specs.insert(rng.randrange(len(specs) + 1), rng.choice(BAD_SPECS))
    force = rng.random() < 0.15
    prune = rng.random() < (0.6 if bucket == "prune" else 0.15)
    lease = None
    if bucket == "lease" or rng.random() < 0.1:
        kind = rng.choice(["unnamed", "this", "other", "hash_ok", "hash_stale", "other_hash"])
        names = [r[0] for r in remote if r[1] == "h" and r[0].startswith("refs/heads/")] or ["refs/heads/main"]
        this = rng.choice(names)
        cur = dict((r[0], r[2]) for r in remote if r[1] == "h").get(this, 0)
        if kind == "unnamed":
            lease = {"ref": "", "id": 0}
        elif kind == "this":
            lease = {"ref": hx(this), "id": 0}
        elif kind == "other":
            lease = {"ref": hx("refs/heads/elsewhere"), "id": 0}
        elif kind == "hash_ok":
            lease = {"ref": hx(this), "id": cur}
        elif kind == "hash_stale":
            lease = {"ref": hx(this), "id": pick_commit()}
        else:
            lease = {"ref": hx("refs/heads/elsewhere"), "id": pick_commit()}
    if bucket == "shallow":
        cs = [c for c in commits if w.get(c)["abs"][2]]
        if cs:
            shallow = sorted(set(rng.sample(cs, min(len(cs), rng.choice([1, 2])))))
            keep = reach(w, [r[2] for r in local if r[1] == "h"], set(shallow))
            for o in w.objs:
                if o["t"] == "commit" and o["id"] not in keep:
                    o["present"] = False
    base = finish_case(w, bucket, [], [], shallow)
    return {"bucket": bucket, "objs": base["objs"], "hashes": base["hashes"], "abs": base["abs"], "shallow": base["shallow"],
            "local": [[hx(n), k, (hx(v) if k == "s" else v)] for n, k, v in local],
            "remote": [[hx(n), k, (hx(v) if k == "s" else v)] for n, k, v in remote],
            "specs": [hx(s) for s in specs], "force": force, "prune": prune, "lease": lease,
            "delete_refs_cap": rng.random() < 0.9, "follow_tags": False}


# ------------------------------------------------------------------ the rule of the property, in python

def spec_parts(s):
    force = s.startswith("+")
    body = s[1:] if force else s
    src, dst = body.split(":", 1)
    return force, src, dst


def glob_match(pat, name):
    """-> the text matched by '*' or None"""
    if "*" not in pat:
        return "" if pat == name else None
    pre, suf = pat.split("*", 1)
    if len(name) >= len(pre) + len(suf) and name.startswith(pre) and name.endswith(suf):
        return name[len(pre):len(name) - len(suf)]
    return None


def valid_spec(s):
    if s.count(":") != 1 or s.endswith(":"):
        return False
    a, b = s.split(":")
    return a.count("*") == b.count("*") and a.count("*") < 2


def requested(c):
    """the updates the options ask for: list of dicts name, old, new, forced, lname, kind"""
    local = [(bytes.fromhex(n).decode(), k, (bytes.fromhex(v).decode() if k == "s" else v)) for n, k, v in c["local"]]
    remote = [(bytes.fromhex(n).decode(), k, (bytes.fromhex(v).decode() if k == "s" else v)) for n, k, v in c["remote"]]
    ldict = {n: (k, v) for n, k, v in local}
    rdict = {n: (k, v) for n, k, v in remote}
    specs = [bytes.fromhex(s).decode() for s in c["specs"]] or ["refs/heads/*:refs/heads/*"]
    present = {a[0] for a in c["abs"]}
    inv = {h: int(i) for i, h in c["hashes"].items()}
    out = []
    for s in specs:
        force, src, dst = spec_parts(s)
        if src == "":
            for n, k, v in remote:
                if k == "h" and n == dst:
                    out.append({"name": n, "old": v, "new": 0, "kind": "delete"})
            continue
        forced = force or c["force"]
        def upd(lname, h, name):
            rk = rdict.get(name)
            if rk and rk[0] == "s":
                return
            old = rk[1] if rk else 0
            if old == h:
                return
            out.append({"name": name, "old": old, "new": h, "forced": forced, "lname": lname, "kind": "update"})
        if "*" in s:
            for n, k, v in local:
                m = glob_match(src, n)
                if k == "h" and m is not None:
                    b, a = dst.split("*", 1)
                    upd(n, v, b + m + a)
        elif src in ldict:
            k, v = ldict[src]
            if k == "h":
                upd(src, v, dst)
        elif src in inv and inv[src] in present:
            upd(None, inv[src], dst)
        if c["prune"]:
            for n, k, v in remote:
                if k != "h":
                    continue
                m = glob_match(dst, n)
                if m is None:
                    continue
                back = src.replace("*", m, 1) if "*" in src else src
                if back not in ldict:
                    out.append({"name": n, "old": v, "new": 0, "kind": "prune"})
    return out


def is_ancestor(w, old, new):
    o, n = w.get(old), w.get(new)
    if not (o["present"] and o["t"] == "commit" and n["present"] and n["t"] == "commit"):
        return False
    return old in ancestors(w, [new], cut=False)


def lease_covers(c, name):
    l = c["lease"]
    if l is None:
        return False
    r = bytes.fromhex(l["ref"]).decode()
    return r == "" or r == name


def lease_expected(c, lname):
    """expected remote value under the lease for the local ref lname, or None when it cannot be determined"""
    l = c["lease"]
    if l["id"] != 0:
        exp = l["id"]
    else:
        exp = None
    ldict = {bytes.fromhex(n).decode(): (k, (bytes.fromhex(v).decode() if k == "s" else v)) for n, k, v in c["local"]}
    tr = "refs/remotes/origin/" + (lname or "").replace("refs/heads/", "")
    seen = 0
    cur = tr
    while cur in ldict and ldict[cur][0] == "s" and seen < 50:
        cur = ldict[cur][1]
        seen += 1
    if cur not in ldict or ldict[cur][0] != "h":
        return None          # no usable tracking ref: go-git refuses, which is safe
    return exp if exp is not None else ldict[cur][1]


def allowed(c, w, u):
    """is this requested update permitted by the rule of the property?  -> (bool, why)"""
    if u["kind"] in ("delete", "prune"):
        return True, u["kind"]
    if u["lname"] is not None and lease_covers(c, u["name"]):   # an object-hash source has no tracking ref: ordinary rules
        exp = lease_expected(c, u["lname"])
        if exp is None:
            return False, "lease without tracking ref"
        return (u["old"] == exp), "lease"
    if u["forced"]:
        return True, "forced"
    if u["name"].startswith("refs/tags/") and u["old"] != 0:
        return False, "tag exists"
    if u["old"] == 0:
        return True, "create"
    return is_ancestor(w, u["old"], u["new"]), "ff"


class Main(Suite):
    name = "main"
    go_cmd = "c38"
    coq_imports = "From GoGit Require Import Model.RefSpec Model.RevList Model.PushRules."
    quick_n = 260
    thorough_n = 2500
    coq_chunk = 120

    BUCKETS = [(4, "random"), (2, "lease"), (2, "prune"), (1, "overlap"), (1, "hashsrc"), (1, "invalid"),
               (2, "shallow"), (1, "chainy")]

    def gen(self, rng, n, tier):
        return [gen_push(rng, pick_weighted(rng, self.BUCKETS)) for _ in range(n)]

    def show(self, c):
        return {k: v for k, v in c.items() if k != "objs"}

    def key(self, c):
        return json.dumps([c["abs"], c["local"], c["remote"], c["specs"], c["force"], c["prune"], c["lease"], c["shallow"]])

    def nontrivial(self, c):
        try:
            return any(u["kind"] != "update" or u["old"] != 0 for u in requested(c))
        except Exception:
            return False

    def model_expr(self, c):
        def refs(l):
            return coq_list(["(unhex %s, %s)" % ('"%s"' % n, ("RSym (unhex \"%s\")" % v) if k == "s" else "RHash %s" % coq_N(v))
                             for n, k, v in l])
        hexes = coq_list(["(unhex \"%s\", %s)" % (h.encode().hex(), coq_N(int(i))) for i, h in sorted(c["hashes"].items(), key=lambda x: int(x[0]))])
        lease = "None" if c["lease"] is None else "(Some (mkLease (unhex \"%s\") %s))" % (c["lease"]["ref"], coq_N(c["lease"]["id"]))
        opts = "(mkPO %s %s %s %s %s)" % (coq_list(['(unhex "%s")' % s for s in c["specs"]]), coq_bool(c["force"]),
                                          coq_bool(c["prune"]), lease, coq_bool(c["delete_refs_cap"]))
        return "c38_run %s %s %s %s %s %s" % (coq_store(c), coq_list([coq_N(x) for x in c["shallow"]]), hexes,
                                              refs(c["local"]), refs(c["remote"]), opts)

    def oracle(self, ctx, cases, impl, model):
        fails = {}
        for c in cases:
            r = impl.get(c["id"])
            if r is None:
                fails[c["id"]] = "no reply"
                continue
            if r.get("panic"):
                continue
            why = self.judge(c, r["out"])
            if why:
                fails[c["id"]] = why
        return fails

    def judge(self, c, out):
        specs = [bytes.fromhex(s).decode("latin1") for s in c["specs"]] or ["refs/heads/*:refs/heads/*"]
        if not all(valid_spec(s) for s in specs):
            return None if out == "( err invalid )" else "malformed refspec accepted: " + out
        w = CaseWorld(c)
        req = requested(c)
        toks = out.split()
        if toks[:2] == ["(", "err"]:
            cls = toks[2]
            if cls == "uptodate":
                return "push reports up-to-date although updates are requested: %s" % req[:3] if req else None
            if cls == "delete_unsupported":
                ok = any(spec_parts(s)[1] == "" for s in specs) and not c["delete_refs_cap"]
                return None if ok else "delete refused although the server supports delete-refs"
            if cls == "rejected":
                if c["lease"] is None and not c["shallow"] and req and all(allowed(c, w, u)[0] for u in req):
                    return "push refused although every requested update is allowed: %s" % req[:3]
                return None
            return None
        # parse ( ok ( ( xNAME old new ) ... ) ( objs ) )
        cmds, objs = parse_ok(out)
        names = [k[0] for k in cmds]
        reqset = {(u["name"], u["old"], u["new"]) for u in req}
        rdict = {bytes.fromhex(n).decode(): (k, v) for n, k, v in c["remote"]}
        for k in cmds:
            if k not in reqset:
                return "command %s is not a requested update" % (k,)
        for u in req:
            if (u["name"], u["old"], u["new"]) not in set(cmds):
                return "requested update %s missing from the commands" % ((u["name"], u["old"], u["new"]),)
        for k in cmds:
            rk = rdict.get(k[0])
            if (rk[1] if rk and rk[0] == "h" else 0) != k[1]:
                return "command %s does not carry the advertised old value" % (k,)
            just = [allowed(c, w, u) for u in req if (u["name"], u["old"], u["new"]) == k]
            if not any(j[0] for j in just):
                return "update %s applied although not allowed (%s)" % (k, ",".join(j[1] for j in just))
        if len(set(names)) != len(names):
            return "two commands for one reference: %s" % sorted(n for n in set(names) if names.count(n) > 1)[:3]
        # objects (C37 on the push side)
        news = [k[2] for k in cmds if k[2] != 0]
        if news and not all(spec_parts(s)[1] == "" for s in specs):
            sh = set(c["shallow"])
            need = reach(w, news, sh)
            have = reach(w, [v for n, k, v in c["remote"] if k == "h"], sh)
            got = set(objs)
            miss = sorted((need - have) - got)
            if miss:
                return "pack lacks objects the remote needs: %s" % miss[:8]
            extra = sorted(got - reach(w, news, sh, cut=False))
            if extra:
                return "pack holds objects outside the pushed history: %s" % extra[:8]
        return None

    def finding_class(self, c, reason, reply):
        if reason.startswith("two commands for one reference"):
            return "duplicate-dst"
        if c["shallow"] and re.search(r"applied although not allowed \((ff,)*ff\)", reason):
            return "shallow-assumed-ff"
        if reason.startswith("pack lacks objects") and c["shallow"]:
            return "shallow-as-have"
        return None


def parse_ok(out):
    t = out.split()
    # ( ok ( ( xN o n ) ( xN o n ) ) ( 1 2 3 ) )
    assert t[0] == "(" and t[1] == "ok"
    i = 3
    cmds = []
    assert t[2] == "("
    while t[i] == "(":
        cmds.append((bytes.fromhex(t[i + 1][1:]).decode("latin1"), int(t[i + 2]), int(t[i + 3])))
        assert t[i + 4] == ")"
        i += 5
    assert t[i] == ")"
    i += 1
    assert t[i] == "("
    i += 1
    objs = []
    while t[i] != ")":
        objs.append(int(t[i]))
        i += 1
    return cmds, objs


# ================================================================== suite wire (exercised, not modelled)

class Wire(Suite):
    """push over real transports: go-git client -> go-git server (file transport) and -> git receive-pack, against
    what `git push` does to an identical remote.  After a push that reports success the remote must pass
    git fsck --connectivity-only and carry exactly the references git's push leaves."""
    name = "wire"
    go_cmd = "c36"
    quick_n = 3
    thorough_n = 30

    def gen(self, rng, n, tier):
        return [{"op": "noop", "bucket": pick_weighted(rng, [(3, "ff"), (2, "diverged"), (1, "delete"), (1, "tags"), (1, "shallow")]),
                 "seed": rng.randrange(1 << 30), "all_pairings": tier != "quick"} for _ in range(n)]

    def oracle(self, ctx, cases, impl, model):
        import random
        import os
        import shutil
        from vf.core import HARNESS
        fails = {}
        self.stats = {"pushes_run": 0, "pushes_compared": 0, "client_refusals": 0}
        bin_ = os.path.join(HARNESS, "bin", "c36")
        for c in cases:
            if c.get("op") != "noop":
                continue
            root = os.path.join(ctx.tmp, "pwire-%s" % c["id"])
            os.makedirs(root)
            try:
                why = self._run(c, random.Random(c["seed"]), bin_, root)
            finally:
                shutil.rmtree(root, ignore_errors=True)
            if why:
                fails[c["id"]] = why
        return fails

    def _run(self, c, rng, bin_, root):
        import shutil
        import subprocess
        from props.C36 import mkrepo, repo_state, git, ENV
        w, commits, tags, _ = gen_world(rng, rng.choice(["random", "crisscross", "chain"]))
        tip = commits[-1]
        anc = sorted(ancestors(w, [tip]) - {tip})
        local_refs = [("refs/heads/main", tip)]
        if len(commits) > 2:
            local_refs.append(("refs/heads/dev", rng.choice(commits)))
        for i, t in enumerate(tags[:1]):
            local_refs.append(("refs/tags/v%d" % i, t))
        b = c["bucket"]
        if b == "ff" and anc:
            remote_refs = [("refs/heads/main", rng.choice(anc))]
        elif b == "diverged":
            remote_refs = [("refs/heads/main", rng.choice(commits)), ("refs/heads/stale", rng.choice(commits))]
        elif b == "delete":
            remote_refs = [("refs/heads/main", tip), ("refs/heads/old", rng.choice(commits))]
        else:
            remote_refs = [("refs/heads/main", rng.choice(anc))] if anc and rng.random() < 0.6 else []
        specs = {"ff": ["refs/heads/*:refs/heads/*"], "diverged": [rng.choice(["refs/heads/main:refs/heads/main", "+refs/heads/main:refs/heads/main", "refs/heads/*:refs/heads/*"])],
                 "delete": [":refs/heads/old"], "tags": ["refs/heads/main:refs/heads/main", "refs/tags/*:refs/tags/*"],
                 "shallow": ["refs/heads/main:refs/heads/main"]}[b]
        follow = b == "tags" and rng.random() < 0.5
        if follow:
            specs = ["refs/heads/main:refs/heads/main"]      # one branch: addReachableTags adds each reachable annotated tag once
        local = root + "/local"
        shallow = []
        ids = None
        if b == "shallow":
            cs = [x for x in ancestors(w, [tip]) if w.get(x)["abs"][2]]
            if not cs:
                return None
            shallow = [rng.choice(sorted(cs))]
            ids = reach(w, [t for _, t in local_refs], set(shallow))
            local_refs = [r for r in local_refs if r[1] in ids]
        mkrepo(local, w, local_refs, ids=ids, bare=False)
        if shallow:
            with open(local + "/.git/shallow", "w") as f:
                f.write("".join(w.get(x)["hash"] + "\n" for x in shallow))
        if repo_state(local)["fsck"] != 0:
            return None
        remote0 = root + "/remote0"
        mkrepo(remote0, w, remote_refs, ids=reach(w, [t for _, t in remote_refs]))
        ref_remote = root + "/remote-ref"
        shutil.copytree(remote0, ref_remote)
        p = git(local, "push", "-q", *(["--follow-tags"] if follow else []), "file://" + ref_remote, *specs, ok=False)
        git_ok = p.returncode == 0
        want = repo_state(ref_remote)
        problems = []
        servers = ["gogit", "git"] if c.get("all_pairings") else [rng.choice(["gogit", "git"])]
        for server in servers:
            rdir = root + "/remote-" + server
            shutil.copytree(remote0, rdir)
            ldir = root + "/local-" + server
            shutil.copytree(local, ldir)
            case = {"id": 0, "op": "wire", "mode": "push", "server": server, "client_dir": ldir, "server_dir": rdir, "specs": specs,
                    "follow_tags": follow}
            pr = subprocess.run([bin_], input=(json.dumps(case) + "\n").encode(), stdout=subprocess.PIPE, stderr=subprocess.PIPE, env=ENV, timeout=180)
            self.stats["pushes_run"] += 1
            try:
                rep = json.loads(pr.stdout.decode().splitlines()[0])
            except Exception:
                problems.append("go-git -> %s: no reply (%s)" % (server, pr.stderr.decode()[-200:]))
                continue
            if rep.get("panic"):
                problems.append("go-git -> %s: panic %s" % (server, rep["panic"][:200]))
                continue
            if not rep["out"].startswith("( ok"):
                self.stats["client_refusals"] += 1
                continue
            got = repo_state(rdir)
            self.stats["pushes_compared"] += 1
            tag = "go-git client -> %s server (%s, %s)" % (server, b, " ".join(specs))
            if got["fsck"] != 0:
                problems.append("%s: remote not connected after a successful push: %s" % (tag, got["fsck_msg"][-160:].replace("\n", " | ")))
            elif not git_ok:
                problems.append("%s: push succeeded where git refuses (%s)" % (tag, p.stderr.decode()[-120:].replace("\n", " | ")))
            elif got["refs"] != want["refs"]:
                problems.append("%s: remote references differ from git's push: %s vs %s" % (tag, got["refs"][:4], want["refs"][:4]))
        return "; ".join(problems[:3]) if problems else None

    def finding_class(self, c, reason, reply):
        if c["bucket"] == "shallow" and "gogit server" in reason and ("not connected" in reason or "where git refuses" in reason):
            return "shallow-as-have"
        if c["bucket"] == "shallow" and "where git refuses" in reason:
            return "shallow-as-have"
        return None

    def extra(self, ctx, cases, impl, model):
        return dict(getattr(self, "stats", {}))


SUITES = [Main(), Wire()]
