"""Generators of commit / tag objects shared by C02 and C03 (raw bytes as
`git hash-object --literally` stores them, and in-memory field structs).
Every random choice comes from the rng passed in."""
from vf.gen import pick_weighted, rbytes

HEXL = b"0123456789abcdef"
PGP = b"-----BEGIN PGP SIGNATURE-----"
PGPMSG = b"-----BEGIN PGP MESSAGE-----"
X509 = b"-----BEGIN SIGNED MESSAGE-----"
SSH = b"-----BEGIN SSH SIGNATURE-----"
MARKERS = [PGP, PGPMSG, X509, SSH]
ZERO_TS = -62135596800


DEFAULT_HL = [40]


def rhash(rng, n=None):
    return rbytes(rng, DEFAULT_HL[0] if n is None else n, HEXL)


def _with_hl(f, rng, bucket, hl):
    """run a raw generator with object ids of hl hex digits (64 = SHA-256 repository)"""
    DEFAULT_HL[0] = hl
    try:
        return f(rng, bucket)
    finally:
        DEFAULT_HL[0] = 40


def word(rng, lo=1, hi=8, alpha=b"abcdefghijXYZ01"):
    return rbytes(rng, rng.randrange(lo, hi + 1), alpha)


def name(rng, odd=False):
    if not odd:
        return b" ".join(word(rng) for _ in range(rng.randrange(1, 3)))
    return rng.choice([b"", b" ", b"A  B", b" lead", b"trail ", b"A\tB\t", b"a<b", b"a>b", b"<", b"\xc3\xa9t\xc3\xa9", b"A U Thor", b"x" * 40])


def email(rng, odd=False):
    if not odd:
        return word(rng) + b"@" + word(rng) + b".org"
    return rng.choice([b"", b" ", b"a b", b"<a>", b"a<b", b"a>b", b">", b"x@y", b"\xff"])


TS_GRID = [0, 1, 2, 9, 10, 99, 1234567890, 2**31 - 1, 2**31, 2**32 - 1, 2**32, 99999999999, 2**62, 2**63 - 1]
TS_ODD = [b"-1", b"-5", b"-62135596800", b"9223372036854775808", b"18446744073709551615", b"18446744073709551616",
          b"12345678901234567890123", b"+5", b"0005", b"1e3", b"", b"12a", b"0x10", b"1_000"]
ZONES = [b"+0000", b"+0200", b"+0100", b"-0130", b"+0530", b"-0800", b"+1400", b"-1200", b"+0059", b"+2359"]
ZONES_ODD = [b"+9999", b"-9999", b"+0060", b"+0090", b"-0030", b"-0001", b"+05", b"0530", b"+053000", b"+5", b"-05-3", b"+0a00",
             b" 0530", b"+05 30", b"00530", b"++530", b"+1260", b"-0099", b""]


def ts_canon(rng):
    return b"%d" % rng.choice(TS_GRID + [rng.randrange(0, 2**31) for _ in range(6)])


def ident_line(rng, odd):
    """the text after 'author ' (no LF)"""
    if not odd:
        return name(rng) + b" <" + email(rng) + b"> " + ts_canon(rng) + b" " + (rng.choice(ZONES) if rng.random() < 0.95 else b"-0000")
    k = rng.randrange(19)
    nm, em = name(rng, rng.random() < 0.5), email(rng, rng.random() < 0.4)
    ts = rng.choice(TS_ODD) if rng.random() < 0.5 else ts_canon(rng)
    tz = rng.choice(ZONES_ODD) if rng.random() < 0.6 else rng.choice(ZONES)
    if k == 0:
        return nm + b" <" + em + b">"
    if k == 1:
        return nm + b" <" + em + b"> " + ts
    if k == 2:
        return nm + b" <" + em + b">" + ts + b" " + tz
    if k == 3:
        return nm + b" <" + em + b">  " + ts + b" " + tz
    if k == 4:
        return nm + b" <" + em + b"> " + ts + b"  " + tz
    if k == 5:
        return nm + b" " + em + b"> " + ts + b" " + tz
    if k == 6:
        return nm + b" <" + em + b" " + ts + b" " + tz
    if k == 7:
        return nm + b" <" + em + b"> <" + email(rng) + b"> " + ts + b" " + tz
    if k == 8:
        return nm + b"<" + em + b"> " + ts + b" " + tz
    if k == 9:
        return b"<" + em + b"> " + ts + b" " + tz
    if k == 10:
        return nm + b" <" + em + b"> " + ts + b" " + tz + b" trailing"
    if k == 11:
        return nm + b" <" + em + b">\t" + ts + b"\t" + tz
    if k == 12:
        return b""
    if k == 13:
        return nm + b" >" + em + b"< " + ts + b" " + tz
    if k == 16:
        # nothing git or go-git can read as a date after '>' (no digit at all)
        return nm + b" <" + em + b">" + rng.choice([b" ", b"  ", b" x", b"\t", b" +", b" -", b" + ", b" abc def", b"x", b" -x +y"])
    if k == 17:
        # '>' inside the name, blank names
        return rng.choice([b"a>b", b"A> B", b">", b"", b" ", b"  ", b"\t", b" \t", b"A\t ", b"A \r"]) + b" <" + email(rng) + b"> " + ts_canon(rng) + b" " + rng.choice(ZONES)
    if k == 18:
        # date part at the edges of the canonical shape
        return name(rng) + b" <" + email(rng) + b"> " + rng.choice([b"0", b"00", b"007", b"9223372036854775807", b"9223372036854775808"]) + b" " + rng.choice(
            [b"+0000", b"-0000", b"-0001", b"-0100", b"+0059", b"+0060", b"+9959", b"-9959", b"+0100x", b"+01000", b"+0100 7", b"+0100 x"])
    return nm + b" <" + em + b"> " + ts + b" " + tz


def sig_body(rng, marker=None, lines=None):
    """an armored block (list of lines without LF)"""
    m = marker or pick_weighted(rng, [(5, PGP), (1, PGPMSG), (2, X509), (2, SSH)])
    n = rng.randrange(0, 4) if lines is None else lines
    body = [rbytes(rng, rng.randrange(0, 12), b"ABCDabcd0123+/=") for _ in range(n)]
    if rng.random() < 0.3:
        body.insert(0, b"")
    return [m] + body + [m.replace(b"BEGIN", b"END")]


def multiline_header(key, lines):
    """key SP first \n SP cont ... (list of lines with LF)"""
    out = [key + b" " + lines[0] + b"\n"]
    for l in lines[1:]:
        out.append(b" " + l + b"\n")
    return out


def extra_header(rng, odd):
    k = pick_weighted(rng, [(3, b"mergetag"), (3, b"x-" + word(rng)), (1, b"HG:extra"), (1, b"gpgsigx" if odd else b"note"),
                            (1 if odd else 0, b"gpgsig"), (1 if odd else 0, b"gpgsig-sha25"), (1 if odd else 0, b""),
                            (1 if odd else 0, b"encodingx"), (1 if odd else 0, b"Tree")])
    r = rng.random()
    if r < 0.25 and k not in (b"",):
        return [k + b"\n"] if odd or k != b"mergetag" else [k + b" x\n"]      # key without value
    if r < 0.35 and odd:
        return [k + b" \n"]                                                   # empty value
    n = 1 if r < 0.7 else rng.randrange(2, 5)
    lines = [word(rng, 0 if odd else 1, 10, b"abc def:<>") .strip(b" ") or b"v" for _ in range(n)]
    if odd and n > 1 and rng.random() < 0.5:
        lines[rng.randrange(1, n)] = b""                                      # empty continuation line
    if rng.random() < (0.2 if odd else 0.12):
        lines[-1] = lines[-1] + b" "                                          # trailing blank kept verbatim by git and go-git
    if odd and rng.random() < 0.15:
        lines.append(b"")                                                     # value ending in an empty continuation
    return multiline_header(k, lines)


def message(rng, kind=None):
    kind = kind or pick_weighted(rng, [(5, "plain"), (2, "nolf"), (1, "empty"), (1, "blanklead"), (1, "blanktail"), (2, "headerlike"), (2, "marker")])
    if kind == "empty":
        return b""
    subj = b" ".join(word(rng) for _ in range(rng.randrange(1, 4)))
    if kind == "plain":
        return subj + b"\n" + (b"\n" + word(rng) + b"\n" if rng.random() < 0.4 else b"")
    if kind == "nolf":
        return subj
    if kind == "blanklead":
        return b"\n" * rng.randrange(1, 3) + subj + b"\n"
    if kind == "blanktail":
        return subj + b"\n" + b"\n" * rng.randrange(1, 3)
    if kind == "headerlike":
        return subj + b"\n\n" + rng.choice([b"gpgsig inbody\n", b"tree 1234\n", b"author x <y> 1 +0000\n", b" leading space\n", b"gpgsig-sha256 z\n x\n"]) + (b"" if rng.random() < 0.5 else b"tail")
    # a signature marker inside the body (matters for tags, inert for commits)
    blk = b"\n".join(sig_body(rng)) + b"\n"
    return subj + b"\n" + blk + (b"" if rng.random() < 0.6 else word(rng) + b"\n")


# ------------------------------------------------------------------ commits

def commit_headers(rng, odd=False, nsig=None, n256=None):
    """canonical header line groups (each a list of LF-terminated lines), in git's order"""
    g = [("tree", [b"tree " + rhash(rng) + b"\n"])]
    for _ in range(pick_weighted(rng, [(3, 0), (4, 1), (2, 2), (1, 3)])):
        g.append(("parent", [b"parent " + rhash(rng) + b"\n"]))
    g.append(("author", [b"author " + ident_line(rng, odd and rng.random() < 0.5) + b"\n"]))
    g.append(("committer", [b"committer " + ident_line(rng, odd and rng.random() < 0.5) + b"\n"]))
    if rng.random() < 0.3:
        g.append(("encoding", [b"encoding " + rng.choice([b"ISO-8859-1", b"latin1", b"ISO-8859-1", b"koi8-r", b"UTF-8", b"utf-8", b"x"]) + b"\n"]))
    for _ in range(pick_weighted(rng, [(4, 0), (3, 1), (2, 2)])):
        g.append(("extra", extra_header(rng, odd)))
    nsig = pick_weighted(rng, [(4, 0), (5, 1)]) if nsig is None else nsig
    n256 = pick_weighted(rng, [(6, 0), (1, 1)]) if n256 is None else n256
    for _ in range(nsig):
        g.append(("gpgsig", multiline_header(b"gpgsig", sig_body(rng) + [b""])))
    for _ in range(n256):
        g.append(("gpgsig256", multiline_header(b"gpgsig-sha256", sig_body(rng) + [b""])))
    return g


def assemble(groups, msg, blank=True):
    return b"".join(b"".join(ls) for _, ls in groups) + (b"\n" if blank else b"") + msg


def raw_commit(rng, bucket, hl=40):
    """-> bytes.  buckets: canonical permuted dups sigs oddident oddhdr eofhdr trunc junk"""
    if hl != 40:
        return _with_hl(raw_commit, rng, bucket, hl)
    if bucket == "canonical":
        return assemble(commit_headers(rng), message(rng, rng.choice(["plain", "plain", "nolf", "blanktail", "headerlike", "marker"])))
    if bucket == "oddident":
        g = commit_headers(rng, odd=False)
        for i, (k, ls) in enumerate(g):
            if k in ("author", "committer") and rng.random() < 0.7:
                g[i] = (k, [k.encode() + b" " + ident_line(rng, True) + b"\n"])
        return assemble(g, message(rng))
    if bucket == "sigs":
        # 0..4 signature headers at every header position, continuation oddities
        g = commit_headers(rng, nsig=0, n256=0)
        for _ in range(rng.randrange(0, 5)):
            kind = pick_weighted(rng, [(5, b"gpgsig"), (2, b"gpgsig-sha256"), (1, b"gpgsigx"), (1, b"gpgsig-sha25"), (1, b"gpgsig\n")])
            if kind == b"gpgsig\n":
                ls = [b"gpgsig\n"] + [b" " + word(rng) + b"\n" for _ in range(rng.randrange(0, 2))]
            else:
                body = sig_body(rng) if rng.random() < 0.7 else [word(rng)]
                if rng.random() < 0.6:
                    body = body + [b""]
                ls = multiline_header(kind, body)
            g.insert(rng.randrange(1, len(g) + 1), ("sig", ls))
        return assemble(g, message(rng))
    if bucket == "permuted":
        g = commit_headers(rng)
        rest = g[1:]
        rng.shuffle(rest)
        g = g[:1] + rest if rng.random() < 0.8 else rest[:1] + g[:1] + rest[1:]
        return assemble(g, message(rng))
    if bucket == "dups":
        g = commit_headers(rng)
        for _ in range(rng.randrange(1, 4)):
            k, ls = g[rng.randrange(len(g))]
            if k in ("author", "committer") and rng.random() < 0.6:
                ls = [k.encode() + b" " + ident_line(rng, False) + b"\n"]
            if k == "encoding":
                ls = [b"encoding " + rng.choice([b"UTF-8", b"latin1", b"koi8-r"]) + b"\n"]
            g.insert(rng.randrange(1, len(g) + 1), (k, ls))
        return assemble(g, message(rng))
    if bucket == "oddhdr":
        g = commit_headers(rng, odd=True)
        r = rng.random()
        if r < 0.2:
            g.insert(rng.randrange(1, len(g) + 1), ("cont", [b" stray continuation\n"]))
        elif r < 0.3:
            g[0] = ("tree", [b"tree " + rhash(rng).upper() + b"\n"])
        elif r < 0.4:
            g[0] = ("tree", [b"tree " + rhash(rng, 64) + b"\n"])
        elif r < 0.5:
            g.insert(rng.randrange(1, len(g) + 1), ("parent", [b"parent " + rhash(rng, rng.choice([39, 41, 40])).replace(b"a", rng.choice([b"a", b"g", b"A"])) + b"\n"]))
        elif r < 0.55:
            g[0] = ("tree", [b"tree " + rhash(rng, rng.choice([0, 39, 41, 63])) + b"\n"])
        elif r < 0.6:
            g[0] = ("tree", [b"tree  " + rhash(rng) + b"\n"])
        elif r < 0.65:
            g[0] = ("tree", [b"tree " + rhash(rng) + b" \n"])
        elif r < 0.75:
            g.insert(rng.randrange(1, len(g) + 1), ("encoding", [rng.choice([b"encoding\n", b"encoding \n"])]))
            g.append(("encoding", [b"encoding latin1\n"]))
        return assemble(g, message(rng))
    if bucket == "extras":
        # a root commit (git can --amend it, which shows what git takes its extra headers to be) with every extra-header shape:
        # multi-line values, empty values, keys without a value, stray continuation lines, standard keywords out of place
        g = [("tree", [b"tree " + rhash(rng) + b"\n"]), ("author", [b"author " + ident_line(rng, False) + b"\n"]),
             ("committer", [b"committer " + ident_line(rng, False) + b"\n"])]
        for _ in range(rng.randrange(0, 5)):
            k = pick_weighted(rng, [(5, "extra"), (3, "oddextra"), (1, "sig"), (1, "enc"), (1, "stray"), (1, "std"), (1, "bare")])
            if k == "extra":
                ls = extra_header(rng, False)
            elif k == "oddextra":
                ls = extra_header(rng, True)
            elif k == "sig":
                ls = multiline_header(rng.choice([b"gpgsig", b"gpgsig-sha256"]), sig_body(rng) + ([b""] if rng.random() < 0.5 else []))
            elif k == "enc":
                ls = [rng.choice([b"encoding UTF-8\n", b"encoding\n", b"encoding \n"])]
            elif k == "stray":
                ls = [b" stray\n"]
            elif k == "std":
                ls = [rng.choice([b"tree x\n", b"parent y\n", b"author Z <z@z> 3 +0000\n", b"committer\n", b"tree\n", b"parent\n"])]
            else:
                ls = [word(rng) + b"\n"]
            g.insert(rng.randrange(1, len(g) + 1), (k, ls))
        r = rng.random()
        if r < 0.08:
            return assemble(g, b"", blank=False)            # ends in the header, LF-terminated
        if r < 0.16:
            return assemble(g, b"", blank=False)[:-1]       # ends in the header, unterminated
        return assemble(g, message(rng, rng.choice(["plain", "plain", "nolf", "empty", "headerlike"])))
    if bucket == "eofhdr":
        # the object ends inside the header block: no blank line, with or without final LF
        g = commit_headers(rng, odd=rng.random() < 0.3)
        k = rng.randrange(1, len(g) + 1)
        b = assemble(g[:k], b"", blank=False)
        return b[:-1] if rng.random() < 0.5 else b
    if bucket == "trunc":
        b = assemble(commit_headers(rng), message(rng))
        return b[:rng.randrange(0, len(b) + 1)]
    if bucket == "junk":
        r = rng.random()
        if r < 0.2:
            return b""
        if r < 0.3:
            return b"\n"
        if r < 0.5:
            return rbytes(rng, rng.randrange(1, 60), b"tree parent\n <>0123abcdef")
        b = bytearray(assemble(commit_headers(rng), message(rng)))
        for _ in range(rng.randrange(1, 4)):
            b[rng.randrange(len(b))] = rng.choice(b"\n <>\x00\xffg-")
        return bytes(b)
    raise ValueError(bucket)


COMMIT_BUCKETS = [(5, "canonical"), (3, "sigs"), (2, "permuted"), (2, "dups"), (3, "oddident"), (3, "oddhdr"), (2, "eofhdr"), (1, "trunc"), (1, "junk"),
                  (3, "extras")]


# ------------------------------------------------------------------ tags

TYPES = [b"commit", b"tree", b"blob", b"tag"]


def tag_headers(rng, odd=False):
    g = [("object", [b"object " + rhash(rng) + b"\n"]),
         ("type", [b"type " + rng.choice(TYPES) + b"\n"]),
         ("tag", [b"tag " + (word(rng, 1, 12, b"abcv0123./-") if not odd else rng.choice([b"", b"v 1", b" v1", b"v1 ", b"refs/tags/x"])) + b"\n"])]
    if rng.random() < 0.9:
        g.append(("tagger", [b"tagger " + ident_line(rng, odd and rng.random() < 0.5) + b"\n"]))
    return g


def tag_body(rng, nsigblocks=None):
    msg = message(rng, rng.choice(["plain", "plain", "nolf", "empty", "blanktail", "headerlike"]))
    n = pick_weighted(rng, [(3, 0), (6, 1), (1, 2)]) if nsigblocks is None else nsigblocks
    out = msg
    for i in range(n):
        if out and not out.endswith(b"\n") and rng.random() < 0.8:
            out += b"\n"
        out += b"\n".join(sig_body(rng)) + (b"\n" if rng.random() < 0.9 else b"")
        if i + 1 < n and rng.random() < 0.5:
            out += word(rng) + b"\n"
    if n and rng.random() < 0.1:
        out += b"trailing text\n"
    return out


def raw_tag(rng, bucket, hl=40):
    if hl != 40:
        return _with_hl(raw_tag, rng, bucket, hl)
    if bucket == "canonical":
        return assemble(tag_headers(rng), tag_body(rng))
    if bucket == "oddident":
        g = tag_headers(rng)
        g = [(k, ls) for k, ls in g if k != "tagger"] + [("tagger", [b"tagger " + ident_line(rng, True) + b"\n"])]
        return assemble(g, tag_body(rng))
    if bucket == "sigs":
        # gpgsig / gpgsig-sha256 headers (0..3 regions), adjacent or separated, other gpgsig-prefixed keys
        g = tag_headers(rng)
        for _ in range(rng.randrange(0, 4)):
            kind = pick_weighted(rng, [(3, b"gpgsig"), (4, b"gpgsig-sha256"), (1, b"gpgsigx"), (1, b"gpgsig\n")])
            if kind == b"gpgsig\n":
                ls = [b"gpgsig\n"]
            else:
                body = sig_body(rng) if rng.random() < 0.6 else [word(rng)]
                ls = multiline_header(kind, body)
            if rng.random() < 0.6:
                g.append(("sig", ls))
            else:
                g.insert(rng.randrange(3, len(g) + 1), ("sig", ls))
            if rng.random() < 0.5:
                g.append(("extra", [b"x-" + word(rng) + b" v\n"]))
        return assemble(g, tag_body(rng))
    if bucket == "oddhdr":
        g = tag_headers(rng, odd=True)
        r = rng.random()
        if r < 0.2:
            rest = g[1:]
            rng.shuffle(rest)
            g = g[:1] + rest
        elif r < 0.35:
            g.insert(rng.randrange(0, len(g) + 1), g[rng.randrange(len(g))])
        elif r < 0.5:
            g.insert(rng.randrange(3, len(g) + 1), ("extra", extra_header(rng, True)))
        elif r < 0.6:
            g[1] = ("type", [b"type " + rng.choice([b"ofs-delta", b"ref-delta", b"any", b"unknown", b"Commit", b"", b"commit "]) + b"\n"])
        elif r < 0.7:
            g[0] = ("object", [b"object " + rng.choice([rhash(rng).upper(), rhash(rng, 64), rhash(rng, 39), b"z" * 40]) + b"\n"])
        elif r < 0.8:
            g.insert(rng.randrange(3, len(g) + 1), ("marker", [rng.choice(MARKERS) + b"\n"]))
        elif r < 0.9:
            g.insert(rng.randrange(3, len(g) + 1), ("cont", [b" stray\n"]))
        return assemble(g, tag_body(rng))
    if bucket == "eofhdr":
        g = tag_headers(rng)
        if rng.random() < 0.4:
            g.append(("sig", multiline_header(b"gpgsig-sha256", sig_body(rng))))
        k = rng.randrange(1, len(g) + 1)
        b = assemble(g[:k], b"", blank=False)
        return b[:-1] if rng.random() < 0.5 else b
    if bucket == "trunc":
        b = assemble(tag_headers(rng), tag_body(rng))
        return b[:rng.randrange(0, len(b) + 1)]
    if bucket == "junk":
        r = rng.random()
        if r < 0.2:
            return b""
        if r < 0.5:
            return rbytes(rng, rng.randrange(1, 60), b"object type tag\n <>0123abcdef-BEGINPS")
        b = bytearray(assemble(tag_headers(rng), tag_body(rng)))
        for _ in range(rng.randrange(1, 4)):
            b[rng.randrange(len(b))] = rng.choice(b"\n <>\x00\xff-")
        return bytes(b)
    raise ValueError(bucket)


TAG_BUCKETS = [(5, "canonical"), (3, "sigs"), (2, "oddident"), (3, "oddhdr"), (2, "eofhdr"), (1, "trunc"), (1, "junk")]


# ------------------------------------------------------------------ structs

def ident_struct(rng, odd=False):
    if odd and rng.random() < 0.15:
        return {"zero": True}
    ts = rng.choice(TS_GRID) if not odd else rng.choice(TS_GRID + [-1, -2**31, ZERO_TS, -2**63, 2**63 - 1])
    tz = rng.choice([0, 60, -90, 330, -480, 840, -720, 59, 1439]) if not odd else rng.choice([0, -1, 1, 5999, -5999, 6039, 6000, -30, 100000])
    return {"name": name(rng, odd and rng.random() < 0.5).hex(), "email": email(rng, odd and rng.random() < 0.5).hex(), "ts": ts, "tz": tz}


def sig_value(rng, odd):
    v = b"\n".join(sig_body(rng)) + b"\n"
    if odd:
        r = rng.random()
        if r < 0.2:
            v = v[:-1]                       # no trailing LF
        elif r < 0.35:
            v = v + b"\n"                    # two trailing LFs
        elif r < 0.45:
            v = b"\n" + v                    # leading LF
        elif r < 0.55:
            v = b"x"
        elif r < 0.65:
            v = v.replace(b"\n", b"\n\n", 1)  # empty inner line
    return v


def commit_struct(rng, odd=False):
    ex = []
    for _ in range(pick_weighted(rng, [(4, 0), (3, 1), (2, 2)])):
        k = rng.choice([b"mergetag", b"x-" + word(rng), b"note"]) if not odd else rng.choice(
            [b"mergetag", b"tree", b"parent", b"author", b"encoding", b"gpgsig", b"gpgsig-sha256", b"", b"a b", b"x\ny", b"k"])
        n = rng.randrange(1, 4)
        v = b"\n".join(word(rng, 1, 8, b"abc def") .strip(b" ") or b"v" for _ in range(n))
        if odd:
            r = rng.random()
            if r < 0.15:
                v = b""
            elif r < 0.3:
                v += b"\n"
            elif r < 0.4:
                v += b"\n\n"
            elif r < 0.5:
                v = b"a\n\nb"
            elif r < 0.6:
                v = b" lead"
            elif r < 0.7:
                v = b"\nlead"
        ex.append([k.hex(), v.hex()])
    enc = pick_weighted(rng, [(6, b"UTF-8"), (2, b"ISO-8859-1"), (1, b""), (1 if odd else 0, b"utf-8"), (1 if odd else 0, b"a b"), (1 if odd else 0, b"x\ny")])
    msg = message(rng)
    if odd and rng.random() < 0.2:
        msg = rng.choice([b"\n", b"\n\nx", b"gpgsig x\n", b" \n"])
    return {"tree": rhash(rng, 64 if odd and rng.random() < 0.1 else 40).decode(),
            "parents": [rhash(rng).decode() for _ in range(pick_weighted(rng, [(3, 0), (4, 1), (2, 2), (1, 3)]))],
            "author": ident_struct(rng, odd), "committer": ident_struct(rng, odd), "enc": enc.hex(), "extras": ex,
            "sig": (sig_value(rng, odd) if rng.random() < 0.5 else b"").hex(),
            "sig256": (sig_value(rng, odd) if rng.random() < 0.2 else b"").hex(), "msg": msg.hex()}


def tag_struct(rng, odd=False):
    msg = message(rng, rng.choice(["plain", "plain", "nolf", "empty", "blanktail", "headerlike"] + (["marker"] if odd else [])))
    sig = b""
    if rng.random() < 0.6:
        sig = b"\n".join(sig_body(rng)) + b"\n"
        if odd and rng.random() < 0.3:
            sig = rng.choice([sig[:-1], b"x\n" + sig, sig + b"more\n", b"not a block\n"])
    nm = word(rng, 1, 12, b"abcv0123./-") if not odd else rng.choice([b"", b"v 1", b"a\nb", b"v1"])
    t = ident_struct(rng, odd)
    if rng.random() < 0.1:
        t = {"zero": True}
    return {"target": rhash(rng).decode(), "type": rng.choice(TYPES + ([b"ofs-delta"] if odd else [])).decode(), "name": nm.hex(), "tagger": t,
            "sig256": (sig_value(rng, odd) if rng.random() < 0.2 else b"").hex(), "msg": msg.hex(), "sig": sig.hex()}
