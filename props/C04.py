"""C04 Trees are decoded like git and only fsck-clean trees are written (DESIGN.md §4.C04)."""
import hashlib
import os
import re
import subprocess
import zlib
from concurrent.futures import ThreadPoolExecutor

from vf.core import Suite, coq_list, coq_Z
from vf.gen import pick_weighted

ID = "C04"
THEOREMS = ["C04_decode_git", "C04_git_decode", "C04_git_decode_exact", "C04_canon_is_git", "C04_decode_long_mode_refuted", "C04_enc_dec",
            "C04_hfs_dot_eq_git", "C04_hfs_dot_sound", "C04_hfs_dot_malformed_refuted", "C04_ntfs_dotgit_eq_git", "C04_ntfs_dot_eq_git",
            "C04_has_dotgit_refused", "C04_dotgitmodules_eq", "C04_dotgitmodules_symlink",
            "C04_written_clean_structural", "C04_written_clean_partial", "C04_written_clean_refuted",
            "C04_written_gitmodules_malformed_refuted", "C04_written_gitmodules_refuted",
            "C04_sort_is_git_order", "C04_never_refuses", "C04_never_refuses_refuted"]
MODEL_FILES = ["TreeObj.v"]
MODELLED = ("plumbing/object/tree.go: Tree.Decode (filemode.FromBytes, canonicalTreeMode), Tree.Encode, Tree.Validate, "
            "treeEntrySortName / TreeEntrySorter; internal/pathutil: ValidTreePath, IsDotGitName, IsHFSDot (UTF-8 view of "
            "[]rune), IsNTFSDotGit, IsNTFSDot with the four dot-file names (Model/TreeObj.v; canonicalTreeMode, "
            "isValidTreeMode, asciiToLower, the filemode constants and maxTreeEntryNameLen are regenerated into Gen/C04.v); "
            "spec: git's decode_tree_entry / canon_mode (ls-tree) and fsck_tree with verify_ordered, the d/f name stack, "
            "is_hfs_dotgit (pick_one_utf8_char), is_ntfs_dotgit (Spec/GitTree.v); not modelled: bufio buffering of the "
            "decoder, object storage, SHA-256 object ids (20-byte ids throughout), filepath.VolumeName (always \"\" on unix)")
TRUSTED = [
    "C-impl: Tree.Decode / Tree.Encode / Tree.Validate (harness/cmd/c04) vs Model/TreeObj.v on every case",
    "C-git: Spec/GitTree.git_ls_tree vs `git ls-tree -z` and git_fsck_tree vs the error lines of `git fsck --strict` "
    "on every tree of the run (trees written with the loose-object encoding, as hash-object --literally would)",
]
ASSUMPTIONS = [
    "git reads and checks trees as transcribed in Spec/GitTree.v (validated against git 2.39.5 on each run)",
    "`fsck clean` = no error-level message of `git fsck --strict` (badFilemode and the gitattributes/gitignore/mailmap "
    "symlink messages are INFO in git 2.39 and do not fail a check)",
]
RULE = ("case = raw tree bytes to decode (valid, unsorted, duplicates, zero-padded / garbage / over-long modes, odd names, "
        "truncations, random) or an entry set to validate and encode (valid sets, .git disguises for HFS+/NTFS incl. malformed "
        "UTF-8, control / separator bytes, dot-file symlinks, mode grid, duplicates, unsorted, null ids, names of 4095..4097 "
        "bytes); non-trivial = more than one entry or an odd name / mode; distinct by content")

GITENV = {"GIT_CONFIG_NOSYSTEM": "1", "GIT_CONFIG_GLOBAL": "/dev/null", "LC_ALL": "C", "TZ": "UTC",
          "PATH": os.environ.get("PATH", "/usr/bin:/bin")}
BLOB = "e69de29bb2d1d6434b8b29ae775ad8c2e48c5391"      # the empty blob
TREE = "4b825dc642cb6eb9a060e54bf8d69288fbee4904"      # the empty tree
ZERO = "00" * 20
ERRORS = {"badTree", "nullSha1", "fullPathname", "emptyName", "hasDot", "hasDotdot", "hasDotgit", "zeroPaddedFilemode",
          "duplicateEntries", "treeNotSorted", "gitmodulesSymlink"}


def obj_id(kind, data):
    return hashlib.sha1(kind.encode() + b" %d\0" % len(data) + data).hexdigest()


def write_obj(gitdir, kind, data):
    h = obj_id(kind, data)
    d = os.path.join(gitdir, "objects", h[:2])
    p = os.path.join(d, h[2:])
    if not os.path.exists(p):
        os.makedirs(d, exist_ok=True)
        with open(p, "wb") as f:
            f.write(zlib.compress(kind.encode() + b" %d\0" % len(data) + data, 1))
    return h


def enc_entry(mode_text, name, hexid):
    return mode_text + b" " + name + b"\0" + bytes.fromhex(hexid)


def git_key(e):
    """base_name_compare order: a directory sorts as name + '/'"""
    n = bytes.fromhex(e["name"])
    return n + b"/" if e["mode"] == 0o40000 else n


def py_encode(entries):
    return b"".join(enc_entry(b"%o" % e["mode"], bytes.fromhex(e["name"]), e["hash"]) for e in entries)


# ---------------------------------------------------------------- name / mode pools
PLAIN = [b"a", b"b", b"a.b", b"a-b", b"a0", b"ab", b"README.md", b"src", b"lib", b"x.go", b"Makefile", b"z", b"a b", b"\xc3\xa9",
         b"\xe2\x82\xac", b"foo", b"foo.bar", b"foo.bar.baz", b"foo-", b"foo0", b"A", b"B", b"_", b"~", b"0", b"git", b".gitx", b"gitmodules"]
DISGUISE = [b".git", b".GIT", b".Git", b".giT", b"git~1", b"GIT~1", b"GiT~1", b".git ", b".git.", b".git . .", b".git..", b".git:x",
            b".git::$INDEX_ALLOCATION", b".git x", b".gitx", b"git~2", b"git~10", b".git\\x", b"x\\.git", b"x\\git~1", b"x\\.git . ",
            b".g\xe2\x80\x8cit", b"\xe2\x80\x8c.git", b".git\xe2\x80\x8d", b".git\xef\xbb\xbf", b".gi\xef\xbb\xbft", b"\xef\xbb\xbf.\xe2\x80\xaegit\xe2\x81\xaf",
            b".git\xff", b".git\xc3\xa9", b".git\xef\xbf\xbe", b".git\xef\xbf\xbf", b".git\xed\xa0\x80", b".git\xc0\x80", b".git\xc1\xbf",
            b".git\xf4\x90\x80\x80", b".git\xf0\x80\x80\x80", b".git\xe2\x80", b".git\xe2", b".git\x80", b".git\xf5", b".gi\xfft", b"\xff.git",
            b".g\xc4\xb0t", b".G\xc4\xb0T", b"g\xc4\xb0t~1", b".g\xc4\xb1t", b".git\xe0\x80\x80", b".git\xf0\x9f\x98\x80", b".g\xe2\x80\x8c\xe2\x80\x8dit\xe2\x80\x8e"]
DOTFILES = [b".gitmodules", b".GITMODULES", b".gitmodules ", b".gitmodules.", b".gitmodules:$DATA", b"gitmod~1", b"GITMOD~4", b"gitmod~5",
            b"gi7eba~1", b"GI7EBA~9", b"gi7eb~10", b"gi7e~123", b"gi7eba~0", b"gi7eba1~", b"gi7eba~1 .", b"gi7eba~1x", b"gi7ebax1", b"~1234567",
            b".gitmodules\xe2\x80\x8c", b".git\xe2\x80\x8dmodules", b"x\\.gitmodules", b".gitmodules\xff",
            b".gitattributes", b".GitAttributes ", b"gitatt~1", b"gi7d29~1", b".gitattributes\xe2\x80\x8c",
            b".gitignore", b".gitignore.", b"gitign~1", b"gi250a~1", b".git\xef\xbb\xbfignore",
            b".mailmap", b".MAILMAP", b"mailma~1", b"maba30~1", b".mailmap:x", b"mailmap", b".mailmapx"]
ODD = [b".", b"..", b"...", b". ", b".. ", b"a/b", b"/", b"a/", b"/a", b"", b"\\", b"\\\\", b"a\\b", b"a\\..\\b", b"..\\x", b"a\\.", b"a\\", b"\\a",
       b"a\tb", b"a\nb", b"\x7f", b"\x01", b"a\x1f", b"a\x20", b"a\x7e", b"a\x80", b"C:", b"c:\\x", b"con", b"aux.txt", b"NUL", b"\xff\xfe", b"a\x00b"]
MODES_OK = [0o100644, 0o100755, 0o120000, 0o40000, 0o160000]
MODES_ODD = [0o100664, 0, 0o100600, 0o100700, 0o100010, 0o100654, 0o100666, 0o40755, 0o140000, 0o170000, 1, 0o644, 0o100644 + 2 ** 20, 2 ** 32 - 1, 0o20000]
MODE_TEXTS = [b"100644", b"100755", b"120000", b"40000", b"160000", b"040000", b"0100644", b"00100644", b"000000100644", b"100664", b"100010",
              b"100654", b"100700", b"100100", b"100001", b"140000", b"1", b"0", b"7777777", b"77777777", b"37777777777", b"40000000000", b"10064x",
              b"+100644", b"", b" ", b"8", b"100644\0", b"1006 44", b"120777", b"40755", b"100644" * 2]
LONG_MODE = b"0" * 5000 + b"100644"                  # longer than the decoder's read buffer (thorough tier)


def long_name(n):
    return (b"n" * n)


def rnd_hash(rng):
    return bytes(rng.randrange(256) for _ in range(20)).hex()


def hash_for(rng, mode):
    if (mode & 0o170000) == 0o40000:
        return TREE
    if (mode & 0o170000) == 0o160000:
        return rnd_hash(rng)
    return BLOB


def rnd_entries(rng, n, names):
    es, used = [], set()
    for _ in range(n):
        nm = rng.choice(names)
        if nm in used:
            continue
        used.add(nm)
        m = rng.choice(MODES_OK)
        es.append({"mode": m, "name": nm.hex(), "hash": hash_for(rng, m)})
    return es


def gen_dec(rng, bucket, tier="quick"):
    if bucket == "dec-valid":
        es = sorted(rnd_entries(rng, rng.randrange(0, 8), PLAIN), key=git_key)
        raw = py_encode(es)
    elif bucket == "dec-unsorted":
        es = rnd_entries(rng, rng.randrange(2, 7), PLAIN)
        rng.shuffle(es)
        raw = py_encode(es)
    elif bucket == "dec-dups":
        base = rng.choice([b"foo", b"a", b"foo.bar"])
        es = [{"mode": 0o100644, "name": base.hex(), "hash": BLOB}, {"mode": 0o40000, "name": base.hex(), "hash": TREE}]
        es += rnd_entries(rng, rng.randrange(0, 4), [base + b".x", base + b"-", base + b"0", base + b".bar", base + b".bar.baz", b"b", b"A"])
        if rng.random() < 0.3:
            es.append(dict(rng.choice(es)))
        es = sorted(es, key=git_key) if rng.random() < 0.7 else es
        raw = py_encode(es)
    elif bucket == "dec-modes":
        es = []
        for k in range(rng.randrange(1, 5)):
            es.append(enc_entry(rng.choice(MODE_TEXTS + ([LONG_MODE] if tier == "thorough" else [])), b"%c%d" % (97 + k, k), BLOB))
        raw = b"".join(es)
    elif bucket == "dec-names":
        raw = b"".join(enc_entry(b"100644", rng.choice(DISGUISE + DOTFILES + ODD + [long_name(4096), long_name(4097), long_name(5000)]),
                                 rng.choice([BLOB, BLOB, ZERO, rnd_hash(rng)])) for _ in range(rng.randrange(1, 4)))
    elif bucket == "dec-truncated":
        es = sorted(rnd_entries(rng, rng.randrange(1, 4), PLAIN), key=git_key)
        raw = py_encode(es)
        k = rng.randrange(4)
        if k == 0:
            raw = raw[:rng.randrange(len(raw))]
        elif k == 1:
            raw = raw + bytes(rng.randrange(256) for _ in range(rng.randrange(1, 30)))
        elif k == 2:
            i = rng.randrange(len(raw))
            raw = raw[:i] + bytes([rng.choice([0, 32, 48, 255])]) + raw[i + 1:]
        else:
            i = rng.randrange(len(raw))
            raw = raw[:i] + raw[i + 1:]
    else:
        raw = bytes(rng.choice(b"10046 \0ab\xff7") for _ in range(rng.randrange(0, 60)))
    return {"op": "dec", "bucket": bucket, "raw": raw.hex()}


def gen_enc(rng, bucket):
    sort = True
    es = rnd_entries(rng, rng.randrange(0, 6), PLAIN)
    if bucket == "enc-names":
        pool = rng.choice([DISGUISE, DOTFILES, ODD, DISGUISE + DOTFILES + ODD])
        for _ in range(rng.choice([1, 1, 2])):
            m = rng.choice(MODES_OK)
            es.append({"mode": m, "name": rng.choice(pool).hex(), "hash": hash_for(rng, m)})
    elif bucket == "enc-symlink-dotfiles":
        es.append({"mode": rng.choice([0o120000, 0o120000, 0o100644]), "name": rng.choice(DOTFILES).hex(), "hash": BLOB})
    elif bucket == "enc-modes":
        for k in range(rng.choice([1, 2])):
            m = rng.choice(MODES_ODD + MODES_OK)
            es.append({"mode": m, "name": b"m%d" % k, "hash": hash_for(rng, m)})
            es[-1]["name"] = es[-1]["name"].hex()
    elif bucket == "enc-prefix":
        # a name and its "name<byte>" neighbours around '/': where a directory sorts differently from everything else
        base = rng.choice([b"a", b"foo", b"foo.bar", b"x.go"])
        m = rng.choice([0o40000, 0o160000, 0o100644, 0o120000, 0o160000])
        es = [{"mode": m, "name": base.hex(), "hash": hash_for(rng, m)}]
        for suf in rng.sample([b".x", b"-", b"0", b".bar", b" ", b"+", b"/x", b"~", b".", b"_"], rng.randrange(1, 5)):
            m2 = rng.choice(MODES_OK)
            es.append({"mode": m2, "name": (base + suf).hex(), "hash": hash_for(rng, m2)})
        es += rnd_entries(rng, rng.randrange(0, 3), [b"A", b"b", b"z", b"0"])
    elif bucket == "enc-dups":
        base = rng.choice([b"foo", b"a", b"foo.bar"])
        es.append({"mode": 0o100644, "name": base.hex(), "hash": BLOB})
        es.append({"mode": rng.choice([0o40000, 0o100644, 0o100755, 0o160000]), "name": base.hex(), "hash": TREE})
        es += rnd_entries(rng, rng.randrange(0, 3), [base + b".x", base + b"-", base + b"0", base + b".bar"])
    elif bucket == "enc-unsorted":
        sort = False
        if rng.random() < 0.4:
            es.sort(key=git_key)
            if len(es) > 1 and rng.random() < 0.5:
                i = rng.randrange(len(es) - 1)
                es[i], es[i + 1] = es[i + 1], es[i]
        else:
            rng.shuffle(es)
    elif bucket == "enc-null":
        es.append({"mode": rng.choice(MODES_OK), "name": b"nul".hex(), "hash": ZERO})
    elif bucket == "enc-long":
        es.append({"mode": 0o100644, "name": long_name(rng.choice([4095, 4096, 4097, 6000])).hex(), "hash": BLOB})
    # duplicates by accident are removed except in the duplicate bucket
    if bucket != "enc-dups":
        seen, out = set(), []
        for e in es:
            if e["name"] not in seen:
                seen.add(e["name"])
                out.append(e)
        es = out
    return {"op": "enc", "bucket": bucket, "sort": sort, "entries": es}


def parse_ls(data):
    """git ls-tree -z output -> [(mode, name, oid)]"""
    out = []
    for rec in data.split(b"\0"):
        if not rec:
            continue
        meta, name = rec.split(b"\t", 1)
        mode, _typ, oid = meta.split(b" ")
        out.append((int(mode, 8), name, oid.decode()))
    return out


def parse_impl_entries(out):
    if not out.startswith("( ok"):
        return None
    return [(int(m.group(1)), bytes.fromhex(m.group(2)), m.group(3))
            for m in re.finditer(r"\( (\d+) x([0-9a-f]*) x([0-9a-f]*) \)", out)]


class Main(Suite):
    name = "main"
    go_cmd = "c04"
    coq_imports = "From GoGit Require Import Model.TreeObj Spec.GitTree."
    quick_n = 260
    thorough_n = 2500
    coq_chunk = 200

    def gen(self, rng, n, tier):
        buckets = [(3, "dec-valid"), (2, "dec-unsorted"), (2, "dec-dups"), (4, "dec-modes"), (3, "dec-names"), (4, "dec-truncated"), (1, "dec-random"),
                   (3, "enc-valid"), (4, "enc-prefix"), (6, "enc-names"), (3, "enc-symlink-dotfiles"), (3, "enc-modes"), (2, "enc-dups"), (3, "enc-unsorted"),
                   (1, "enc-null"), (1, "enc-long")]
        out = []
        for _ in range(n):
            b = pick_weighted(rng, buckets)
            out.append(gen_dec(rng, b, tier) if b.startswith("dec") else gen_enc(rng, b))
        return out

    def model_expr(self, c):
        if c["op"] == "dec":
            return 'c04_dec 20 "%s"' % c["raw"]
        ents = coq_list(['(%s, "%s", "%s")' % (coq_Z(e["mode"]), e["name"], e["hash"]) for e in c["entries"]])
        return "c04_enc %s %s" % ("true" if c["sort"] else "false", ents)

    def nontrivial(self, c):
        return c["bucket"] not in ("dec-valid", "enc-valid") or len(c.get("entries", [])) > 1 or len(c.get("raw", "")) > 60

    # ---- git's verdicts on every tree of the run
    def submitted(self, c):
        """the entry order the harness hands to Encode"""
        return sorted(c["entries"], key=git_key) if c["sort"] else list(c["entries"])

    def git_results(self, ctx, cases, impl):
        if getattr(self, "_for", None) is cases:
            return self._res
        repo = os.path.join(ctx.tmp, "git-%d" % len(os.listdir(ctx.tmp)))
        os.makedirs(repo)
        e = dict(GITENV)
        e["HOME"] = repo
        subprocess.run(["/usr/bin/git", "init", "-q", "-b", "main", "."], cwd=repo, env=e, check=True, stdout=subprocess.DEVNULL)
        gd = os.path.join(repo, ".git")
        write_obj(gd, "blob", b"")
        write_obj(gd, "tree", b"")
        trees = {}                     # (case id, kind) -> (oid, raw)
        for c in cases:
            i = c["id"]
            if c["op"] == "dec":
                raw = bytes.fromhex(c["raw"])
                trees[(i, "raw")] = (write_obj(gd, "tree", raw), raw)
            else:
                r = impl.get(i)
                m = re.match(r"^\( ok x([0-9a-f]*) \)$", r["out"]) if r else None
                if m:
                    raw = bytes.fromhex(m.group(1))
                    trees[(i, "written")] = (write_obj(gd, "tree", raw), raw)
                es = self.submitted(c)
                if all(0 <= x["mode"] < 2 ** 32 and len(x["hash"]) == 40 for x in es):
                    raw = py_encode(es)
                    trees[(i, "canon")] = (write_obj(gd, "tree", raw), raw)
        oids = sorted({o for o, _ in trees.values()})

        def ls(oid):
            p = subprocess.run(["/usr/bin/git", "ls-tree", "-z", oid], cwd=repo, env=e, stdout=subprocess.PIPE, stderr=subprocess.PIPE, timeout=60)
            return oid, (parse_ls(p.stdout) if p.returncode == 0 else None)

        with ThreadPoolExecutor(max_workers=8) as ex:
            lsres = dict(ex.map(ls, oids))
        p = subprocess.run(["/usr/bin/git", "fsck", "--strict", "--no-dangling", "--no-progress"], cwd=repo, env=e,
                           stdout=subprocess.PIPE, stderr=subprocess.STDOUT, timeout=600)
        fsck = {o: set() for o in oids}
        for line in p.stdout.decode("latin-1").splitlines():
            m = re.match(r"^(error|warning) in tree ([0-9a-f]{40}): (\w+):", line)
            if m and m.group(2) in fsck and m.group(3) in ERRORS:
                fsck[m.group(2)].add(m.group(3))
        self._for, self._res = cases, {k: (oid, raw, lsres[oid], fsck[oid]) for k, (oid, raw) in trees.items()}
        return self._res

    def oracle(self, ctx, cases, impl, model):
        fails = {}
        git = self.git_results(ctx, cases, impl)
        for c in cases:
            i = c["id"]
            r = impl.get(i)
            if r is None:
                continue
            if c["op"] == "dec":
                _, _, ls, _ = git[(i, "raw")]
                if ls is None:
                    continue                                         # git cannot list it either: no claim
                mine = parse_impl_entries(r["out"])
                if mine != ls:
                    fails[i] = "go-git decodes %s, git ls-tree lists %s" % (brief(mine), brief(ls))
                continue
            es = self.submitted(c)
            want = [(x["mode"], bytes.fromhex(x["name"]), x["hash"]) for x in es]
            if (i, "written") in git:
                _, _, ls, errs = git[(i, "written")]
                if errs:
                    fails[i] = "go-git wrote a tree git fsck --strict rejects: %s" % sorted(errs)
                elif ls != [(canon_mode(m), n, h) for m, n, h in want]:
                    fails[i] = "the tree go-git wrote lists as %s, not the entries %s" % (brief(ls), brief(want))
            elif (i, "canon") in git:
                _, _, ls, errs = git[(i, "canon")]
                if not errs and ls == want:
                    fails[i] = "go-git refuses (%s) an entry list git accepts: fsck --strict clean, ls-tree lists it back" % r["out"]
        return fails

    def finding_class(self, c, reason, reply):
        if c["op"] == "dec":
            raw = bytes.fromhex(c["raw"])
            if reply and "malformed" in reply["out"] and re.search(rb"(^|[\0-\xff]{20})[0-7]{8,} ", raw, re.S):
                return "mode-over-7-digits"
            return None
        names = [bytes.fromhex(x["name"]) for x in c["entries"]]
        if "rejects" in reason:
            if ("['hasDotgit']" in reason or "['gitmodulesSymlink']" in reason) and \
                    any(any(ch >= 0x80 for ch in n) and n[:1] == b"." and b"\\" not in n for n in names):
                return "hfs-dotgit-malformed-tail"
            if "['gitmodulesSymlink']" in reason and any(x["mode"] == 0o120000 and b"\\" in bytes.fromhex(x["name"]) for x in c["entries"]):
                return "gitmodules-symlink-after-backslash"
            return None
        if "refuses" in reason:
            if any(any(ch < 0x20 or ch == 0x7f for ch in n) for n in names):
                return "name-control-char"
            if any(b"\\" in n for n in names):
                return "name-backslash"
            if any(len(n) > 4096 for n in names):
                return "name-over-4096"
            if any(b"\xc4\xb0" in n for n in names):
                return "dotgit-u0130-fold"
            if any(x["mode"] == 0o120000 for x in c["entries"]):
                return "dotfile-symlink"
        return None

    # ---- C-git: S (Spec/GitTree) against the git binary
    def extra(self, ctx, cases, impl, model):
        git = self.git_results(ctx, cases, impl)
        uniq = {}
        for (_i, _k), (oid, raw, ls, errs) in sorted(git.items()):
            if len(raw) <= 12000:
                uniq[oid] = (raw, ls, errs)
        oids = sorted(uniq)
        if ctx.tier == "quick":
            oids = oids[::max(1, len(oids) // 100)]       # a spread sample; the thorough tier takes every tree
        ls_out = ctx.coq_eval(self.coq_imports, ['c04_git_ls 20 "%s"' % uniq[o][0].hex() for o in oids], chunk=self.coq_chunk)
        fs_out = ctx.coq_eval(self.coq_imports, ['c04_git_fsck 20 "%s"' % uniq[o][0].hex() for o in oids], chunk=self.coq_chunk)
        bad = 0
        for o, a, b in zip(oids, ls_out, fs_out):
            raw, ls, errs = uniq[o]
            want_ls = "( err malformed )" if ls is None else "( ok" + "".join(" ( %d x%s x%s )" % (m, n.hex(), h) for m, n, h in ls) + " )"
            got_fs = set(re.findall(r"[A-Za-z0-9]+", b or "")) if b is not None else None
            if a != want_ls or got_fs != errs:
                bad += 1
                ctx.notes.append("spec_mismatch on tree %s: ls S=%s git=%s ; fsck S=%s git=%s" % (raw.hex()[:400], (a or "")[:200], want_ls[:200], b, sorted(errs)))
        return {"spec_vs_git_trees": len(oids), "spec_mismatches": bad}


def canon_mode(m):
    """cache.h canon_mode: what ls-tree shows for a stored mode"""
    t = m & 0o170000
    if t == 0o100000:
        return 0o100755 if m & 0o100 else 0o100644
    if t == 0o120000:
        return 0o120000
    if t == 0o40000:
        return 0o40000
    return 0o160000


def brief(x):
    return repr(x)[:260]


SUITES = [Main()]
