"""C04 Trees are decoded like git and only fsck-clean trees are written (DESIGN.md §4.C04)."""
import hashlib
import os
import re
import subprocess
import zlib
from concurrent.futures import ThreadPoolExecutor

from vf.core import Suite, coq_list, coq_Z
from vf.gen import pick_weighted

ID = "C04"
THEOREMS = ["C04_decode_git", "C04_git_decode", "C04_git_decode_exact", "C04_canon_is_git", "C04_decode_long_mode_refuted", "C04_enc_dec",
            "C04_hfs_dot_eq_git", "C04_wf_utf8_guard", "C04_hfs_dot_sound", "C04_hfs_dot_malformed_refuted", "C04_ntfs_dotgit_eq_git", "C04_ntfs_dot_eq_git",
            "C04_has_dotgit_refused", "C04_dotgitmodules_eq", "C04_dotgitmodules_symlink",
            "C04_written_clean_structural", "C04_written_clean_partial", "C04_written_clean_refuted",
            "C04_written_gitmodules_malformed_refuted", "C04_written_gitmodules_refuted",
            "C04_sort_is_git_order", "C04_never_refuses", "C04_never_refuses_refuted"]
MODEL_FILES = ["TreeObj.v"]
MODELLED = ("plumbing/object/tree.go: Tree.Decode (filemode.FromBytes, canonicalTreeMode), Tree.Encode, Tree.Validate, "
            "treeEntrySortName / TreeEntrySorter; internal/pathutil: ValidTreePath, IsDotGitName, IsHFSDot (UTF-8 view of "
            "[]rune), IsNTFSDotGit, IsNTFSDot with the four dot-file names (Model/TreeObj.v; canonicalTreeMode, "
            "isValidTreeMode, asciiToLower, the filemode constants and maxTreeEntryNameLen are regenerated into Gen/C04.v); "
            "spec (Spec/GitTree.v, shares no detector code with the model): git's decode_tree_entry / canon_mode (ls-tree), "
            "fsck_tree with verify_ordered and the d/f name stack, utf8.c pick_one_utf8_char (code points decoded) / next_hfs_char "
            "(its own list of 16 ignored code points) / is_hfs_dot_generic, path.c is_ntfs_dotgit and is_ntfs_dot_generic "
            "(index-wise over a NUL-terminated string: strncasecmp, only_spaces_and_periods, the fall-back short-name loop); "
            "PROVED: IsHFSDot = is_hfs_dot_generic for every needle on byte strings that are well-formed UTF-8 (git's notion) "
            "whenever they start like a dot-file, IsNTFSDotGit = is_ntfs_dotgit on a path component, IsNTFSDot = "
            "is_ntfs_dot_generic for needle pairs of git's shape, ValidTreePath accepted => no hasDotgit, git's .gitmodules verdict "
            "= Validate's two tests + the backslash-suffix test it lacks, written trees fsck-clean under name_guard, the 7-digit "
            "mode limit is the only difference between the readers; only exercised (impl = model on every run): the hand-written "
            "models of the pathutil detectors themselves (incl. []rune decoding and strings.ToLower / EqualFold on non-ASCII); "
            "not modelled: bufio buffering of the decoder, object storage, SHA-256 object ids (20-byte ids throughout), "
            "filepath.VolumeName (always \"\" on unix)")
LEVEL_NOTE = ("the detector equivalences carry the boolean guards is_bytes (all values < 256), utf8_guard (= wf_utf8 || the first "
              "non-ignored character is not '.'), NUL-free and '/'-free names; the full statement without utf8_guard is false "
              "(C04_hfs_dot_malformed_refuted, known finding hfs-dotgit-malformed-tail); C04_written_clean_partial = fsck reports "
              "nothing under name_guard, C04_written_clean_structural = no structural message with no guard at all")
TRUSTED = [
    "C-impl: Tree.Decode / Tree.Encode / Tree.Validate (harness/cmd/c04) vs Model/TreeObj.v on every case",
    "C-git: Spec/GitTree.git_ls_tree vs `git ls-tree -z` and git_fsck_tree vs the error lines of `git fsck --strict` "
    "on the trees of the run (quick tier: every tree of the HFS+/NTFS disguise buckets and the grid, a spread sample of the "
    "rest; thorough tier: all) — trees written with the loose-object encoding, as hash-object --literally would",
]
ASSUMPTIONS = [
    "git reads and checks trees as transcribed in Spec/GitTree.v (validated against git 2.39.5 on each run)",
    "`fsck clean` = no error-level message of `git fsck --strict` (badFilemode and the gitattributes/gitignore/mailmap "
    "symlink messages are INFO in git 2.39 and do not fail a check)",
]
RULE = ("case = raw tree bytes to decode (valid, unsorted, duplicates, zero-padded / garbage / over-long modes, odd names, "
        "truncations, random) or an entry set to validate and encode (valid sets, .git disguises for HFS+/NTFS incl. malformed "
        "UTF-8, control / separator bytes, dot-file symlinks, mode grid, duplicates, unsorted, null ids, names of 4095..4097 "
        "bytes; generated disguises: dot-file names with HFS+-ignorable code points, their neighbours, well-formed 2/3/4-byte "
        "and malformed sequences (truncated, overlong, surrogate, U+FFFE/FFFF, > U+10FFFF, stray continuation) at the head / "
        "inside / at the tail; NTFS short names git~N, gitmod~N, gi7eba~N... with tilde positions 0..7, digit and case "
        "mutations, tails of spaces / periods / colon, backslash-separated prefixes and suffixes; regular, symlink, dir and "
        "gitlink modes; plus a fixed grid replayed on every run: each of the 16 ignored code points inside .git, one per range "
        "inside a .gitmodules symlink, the neighbours of the ranges, the short-name digit and tail boundaries); "
        "non-trivial = more than one entry or an odd name / mode; distinct by content")

GITENV = {"GIT_CONFIG_NOSYSTEM": "1", "GIT_CONFIG_GLOBAL": "/dev/null", "LC_ALL": "C", "TZ": "UTC",
          "PATH": os.environ.get("PATH", "/usr/bin:/bin")}
BLOB = "e69de29bb2d1d6434b8b29ae775ad8c2e48c5391"      # the empty blob
TREE = "4b825dc642cb6eb9a060e54bf8d69288fbee4904"      # the empty tree
ZERO = "00" * 20
ERRORS = {"badTree", "nullSha1", "fullPathname", "emptyName", "hasDot", "hasDotdot", "hasDotgit", "zeroPaddedFilemode",
          "duplicateEntries", "treeNotSorted", "gitmodulesSymlink"}


def obj_id(kind, data):
    return hashlib.sha1(kind.encode() + b" %d\0" % len(data) + data).hexdigest()


def write_obj(gitdir, kind, data):
    h = obj_id(kind, data)
    d = os.path.join(gitdir, "objects", h[:2])
    p = os.path.join(d, h[2:])
    if not os.path.exists(p):
        os.makedirs(d, exist_ok=True)
        with open(p, "wb") as f:
            f.write(zlib.compress(kind.encode() + b" %d\0" % len(data) + data, 1))
    return h


def enc_entry(mode_text, name, hexid):
    return mode_text + b" " + name + b"\0" + bytes.fromhex(hexid)


def git_key(e):
    """base_name_compare order: a directory sorts as name + '/'"""
    n = bytes.fromhex(e["name"])
    return n + b"/" if e["mode"] == 0o40000 else n


def py_encode(entries):
    return b"".join(enc_entry(b"%o" % e["mode"], bytes.fromhex(e["name"]), e["hash"]) for e in entries)


# ---------------------------------------------------------------- name / mode pools
PLAIN = [b"a", b"b", b"a.b", b"a-b", b"a0", b"ab", b"README.md", b"src", b"lib", b"x.go", b"Makefile", b"z", b"a b", b"\xc3\xa9",
         b"\xe2\x82\xac", b"foo", b"foo.bar", b"foo.bar.baz", b"foo-", b"foo0", b"A", b"B", b"_", b"~", b"0", b"git", b".gitx", b"gitmodules"]
DISGUISE = [b".git", b".GIT", b".Git", b".giT", b"git~1", b"GIT~1", b"GiT~1", b".git ", b".git.", b".git . .", b".git..", b".git:x",
            b".git::$INDEX_ALLOCATION", b".git x", b".gitx", b"git~2", b"git~10", b".git\\x", b"x\\.git", b"x\\git~1", b"x\\.git . ",
            b".g\xe2\x80\x8cit", b"\xe2\x80\x8c.git", b".git\xe2\x80\x8d", b".git\xef\xbb\xbf", b".gi\xef\xbb\xbft", b"\xef\xbb\xbf.\xe2\x80\xaegit\xe2\x81\xaf",
            b".git\xff", b".git\xc3\xa9", b".git\xef\xbf\xbe", b".git\xef\xbf\xbf", b".git\xed\xa0\x80", b".git\xc0\x80", b".git\xc1\xbf",
            b".git\xf4\x90\x80\x80", b".git\xf0\x80\x80\x80", b".git\xe2\x80", b".git\xe2", b".git\x80", b".git\xf5", b".gi\xfft", b"\xff.git",
            b".g\xc4\xb0t", b".G\xc4\xb0T", b"g\xc4\xb0t~1", b".g\xc4\xb1t", b".git\xe0\x80\x80", b".git\xf0\x9f\x98\x80", b".g\xe2\x80\x8c\xe2\x80\x8dit\xe2\x80\x8e"]
DOTFILES = [b".gitmodules", b".GITMODULES", b".gitmodules ", b".gitmodules.", b".gitmodules:$DATA", b"gitmod~1", b"GITMOD~4", b"gitmod~5",
            b"gi7eba~1", b"GI7EBA~9", b"gi7eb~10", b"gi7e~123", b"gi7eba~0", b"gi7eba1~", b"gi7eba~1 .", b"gi7eba~1x", b"gi7ebax1", b"~1234567",
            b".gitmodules\xe2\x80\x8c", b".git\xe2\x80\x8dmodules", b"x\\.gitmodules", b".gitmodules\xff",
            b".gitattributes", b".GitAttributes ", b"gitatt~1", b"gi7d29~1", b".gitattributes\xe2\x80\x8c",
            b".gitignore", b".gitignore.", b"gitign~1", b"gi250a~1", b".git\xef\xbb\xbfignore",
            b".mailmap", b".MAILMAP", b"mailma~1", b"maba30~1", b".mailmap:x", b"mailmap", b".mailmapx"]
ODD = [b".", b"..", b"...", b". ", b".. ", b"a/b", b"/", b"a/", b"/a", b"", b"\\", b"\\\\", b"a\\b", b"a\\..\\b", b"..\\x", b"a\\.", b"a\\", b"\\a",
       b"a\tb", b"a\nb", b"\x7f", b"\x01", b"a\x1f", b"a\x20", b"a\x7e", b"a\x80", b"C:", b"c:\\x", b"con", b"aux.txt", b"NUL", b"\xff\xfe", b"a\x00b"]
MODES_OK = [0o100644, 0o100755, 0o120000, 0o40000, 0o160000]
MODES_ODD = [0o100664, 0, 0o100600, 0o100700, 0o100010, 0o100654, 0o100666, 0o40755, 0o140000, 0o170000, 1, 0o644, 0o100644 + 2 ** 20, 2 ** 32 - 1, 0o20000]
MODE_TEXTS = [b"100644", b"100755", b"120000", b"40000", b"160000", b"040000", b"0100644", b"00100644", b"000000100644", b"100664", b"100010",
              b"100654", b"100700", b"100100", b"100001", b"140000", b"1", b"0", b"7777777", b"77777777", b"37777777777", b"40000000000", b"10064x",
              b"+100644", b"", b" ", b"8", b"100644\0", b"1006 44", b"120777", b"40755", b"100644" * 2]
LONG_MODE = b"0" * 5000 + b"100644"                  # longer than the decoder's read buffer (thorough tier)


# ---- HFS+ / NTFS disguise generators (the detectors proved equal to git's in Proofs/C04{Hfs,Ntfs,Dot}.v)
def u8(cp):
    return chr(cp).encode("utf-8", "surrogatepass")


IGN_CP = [0x200c, 0x200d, 0x200e, 0x200f, 0x202a, 0x202b, 0x202c, 0x202d, 0x202e, 0x206a, 0x206b, 0x206c, 0x206d, 0x206e, 0x206f, 0xfeff]
NEAR_CP = [0x200b, 0x2010, 0x2029, 0x202f, 0x2069, 0x2070, 0xfefe, 0xff00, 0x2000, 0x20aa, 0x2060, 0x1200c, 0x20c]   # just outside the ignored ranges
IGN = [u8(c) for c in IGN_CP]
NEAR = [u8(c) for c in NEAR_CP]
WF = [b"\xc2\x80", b"\xdf\xbf", b"\xc3\xa9", b"\xe0\xa0\x80", b"\xed\x9f\xbf", b"\xee\x80\x80", b"\xef\xbf\xbd", b"\xef\xbb\xbe",
      b"\xf0\x90\x80\x80", b"\xf4\x8f\xbf\xbf", b"\xf0\x9f\x98\x80", b"\xe2\x80\x8b", b"\xe2\x84\xaa", b"\xc5\xbf"]
MALFORMED = [b"\xe2\x80", b"\xe2", b"\xf0\x9f\x98", b"\xc3", b"\xf0\x9f", b"\xef\xbb",                # truncated
             b"\xc0\xae", b"\xc1\xbf", b"\xe0\x80\xae", b"\xe0\x9f\xbf", b"\xf0\x80\x80\xae", b"\xf0\x8f\xbf\xbf",   # overlong
             b"\xed\xa0\x80", b"\xed\xbf\xbf",                                                       # surrogates
             b"\xef\xbf\xbe", b"\xef\xbf\xbf",                                                       # U+FFFE, U+FFFF
             b"\xf4\x90\x80\x80", b"\xf5\x80\x80\x80", b"\xf7\xbf\xbf\xbf", b"\xf8\x88\x80\x80\x80",       # > U+10FFFF
             b"\x80", b"\xbf", b"\xff", b"\xfe", b"\xe2\x41\x8c", b"\xe2\x80\x41", b"\xe2\x80\xcc"]       # stray / broken continuation
HFS_BASES = [b".git", b".git", b".gitmodules", b".gitmodules", b".gitignore", b".gitattributes", b".mailmap", b".gitx", b".gi", b"git", b".gitmodule"]
NTFS_TAILS = [b"", b"", b" ", b".", b" .", b". . ", b"...", b":", b":stream", b" :x", b".:", b"x", b".x", b" x", b"\\", b"\\x", b" \\x", b"1", b"~", b"\xc2\xa0"]
NTFS_STEMS = [b"gitmod", b"gitmod", b"gi7eba", b"gi7eba", b"gi7d29", b"gi250a", b"maba30", b"gitign", b"gitatt", b"mailma", b"git", b"gi7ebx", b"xi7eba", b"gi7eb\xe1"]
DISGUISE_MODES = [0o100644, 0o120000, 0o120000, 0o100755, 0o40000, 0o160000]


def flip_case(rng, b):
    k = rng.randrange(4)
    if k == 0:
        return b.upper()
    if k == 1:
        return bytes((c ^ 0x20) if (65 <= (c & ~0x20) <= 90 and rng.random() < 0.4) else c for c in b)
    return b


def sep_wrap(rng, n):
    k = rng.randrange(10)
    if k == 0:
        return rng.choice([b"x\\", b"\\", b"a\\b\\", b"x\\\\"]) + n
    if k == 1:
        return n + rng.choice([b"\\x", b"\\", b"\\.git", b"\\ "])
    return n


def gen_hfs_name(rng):
    """a dot-file name with ignorable / other well-formed / malformed sequences at the head, inside, at the tail"""
    base = flip_case(rng, rng.choice(HFS_BASES))
    parts = [bytes([c]) for c in base]
    for _ in range(rng.choice([0, 1, 1, 1, 2, 2, 3])):
        pool = pick_weighted(rng, [(6, IGN), (1, NEAR), (1, WF), (2, MALFORMED)])
        where = rng.choice(["head", "mid", "mid", "tail", "tail"])
        pos = 0 if where == "head" else len(parts) if where == "tail" else rng.randrange(1, max(2, len(parts)))
        parts.insert(pos, rng.choice(pool))
    n = b"".join(parts) + rng.choice([b"", b"", b"", b"", b" ", b".", b":x", b"x", b"\xe2\x80\x8c"])
    return sep_wrap(rng, n)


def gen_ntfs_name(rng):
    """.git / git~1 / dot-file names and their 8.3 short names, with NTFS tails"""
    k = rng.randrange(10)
    if k < 3:
        n = flip_case(rng, rng.choice([b".git", b"git~1", b".gitmodules", b".gitignore", b".gitattributes", b".mailmap", b"git~2", b".gitmodule", b".gitmodulesx"]))
    elif k < 5:
        n = flip_case(rng, rng.choice(NTFS_STEMS[:10])[:6]) + b"~" + rng.choice(b"1234123456789005").to_bytes(1, "big")
    else:
        stem = flip_case(rng, rng.choice(NTFS_STEMS))
        cut = rng.choice([6, 6, 5, 5, 4, 3, 2, 1, 0, 7])
        stem = (stem + b"x")[:cut]
        ndig = max(1, rng.choice([8, 8, 8, 7, 9]) - cut - 1)
        digs = bytes(rng.choice(b"123456789") for _ in range(1)) + bytes(rng.choice(b"0123456789") for _ in range(ndig - 1))
        if rng.random() < 0.15:
            i = rng.randrange(len(digs))
            digs = digs[:i] + rng.choice([b"0", b"~", b"x", b":", b" ", b"\xb1"]) + digs[i + 1:]
        n = stem + b"~" + digs
    if rng.random() < 0.2 and n:                      # one-byte mutation
        i = rng.randrange(len(n))
        n = n[:i] + rng.choice([bytes([n[i] | 0x80]), b"~", b"1", b"", b"~~", bytes([n[i] ^ 0x20]), b".", b"\xc4\xb0"]) + n[i + 1:]
    return sep_wrap(rng, n + rng.choice(NTFS_TAILS))


def grid_cases():
    """boundary names replayed on every run: every ignored code point inside .git, one per ignored range inside a
    .gitmodules symlink, the neighbours of the ranges, the NTFS short-name digits and the tail terminators"""
    out = []

    def one(mode, name, note):
        out.append({"op": "enc", "bucket": "enc-grid", "note": note, "sort": True,
                    "entries": [{"mode": mode, "name": name.hex(), "hash": BLOB}]})
    for cp in IGN_CP:
        one(0o100644, b".g" + u8(cp) + b"it", "ignored U+%04X inside .git" % cp)
    for cp in [0x200c, 0x202e, 0x206a, 0xfeff]:
        one(0o120000, b".gitmod" + u8(cp) + b"ules", "ignored U+%04X inside a .gitmodules symlink" % cp)
    out.append({"op": "enc", "bucket": "enc-grid", "note": "neighbours of the ignored ranges", "sort": True,
                "entries": [{"mode": 0o100644, "name": (b".g" + u8(cp) + b"it").hex(), "hash": BLOB} for cp in NEAR_CP]})
    for nm in [b"gitmod~1", b"GITMOD~4", b"gitmod~5", b"gitmod~0", b"gi7eba~1", b"gi7eba~9", b"gi7eba~0", b"gi7eb~10", b"gi~12345", b"~1234567",
               b"gitmod~1:", b"gitmod~1 .", b"gitmod~1x", b".gitmodules:x", b".gitmodules .", b"gi7eba~1:x"]:
        one(0o120000, nm, "NTFS short name / tail")
    for nm in [b".git:x", b"git~1:", b".git. .", b"git~1 x", b"git~2"]:
        one(0o100644, nm, "NTFS .git tail")
    return out


# ---- narrow classification helpers (python views of git's tests, used only to key the known-finding classes)
def git_wf_utf8(b):
    """pick_one_utf8_char never reports an invalid sequence"""
    i, n = 0, len(b)
    while i < n:
        a = b[i]
        c = lambda k: i + k < n and (b[i + k] & 0xc0) == 0x80
        if a < 0x80:
            i += 1
        elif (a & 0xe0) == 0xc0:
            if not c(1) or (a & 0xfe) == 0xc0:
                return False
            i += 2
        elif (a & 0xf0) == 0xe0:
            if not (c(1) and c(2)) or (a == 0xe0 and (b[i + 1] & 0xe0) == 0x80) or (a == 0xed and (b[i + 1] & 0xe0) == 0xa0) or \
                    (a == 0xef and b[i + 1] == 0xbf and (b[i + 2] & 0xfe) == 0xbe):
                return False
            i += 3
        elif (a & 0xf8) == 0xf0:
            if not (c(1) and c(2) and c(3)) or (a == 0xf0 and (b[i + 1] & 0xf0) == 0x80) or (a == 0xf4 and b[i + 1] > 0x8f) or a > 0xf4:
                return False
            i += 4
        else:
            return False
    return True


def strip_ign(b):
    for seq in IGN:
        b = b.replace(seq, b"")
    return b


def _at(s, i):
    return s[i] if i < len(s) else 0


def git_ntfs_dot(name, dotgit=b"gitmodules", short=b"gi7eba"):
    """path.c is_ntfs_dot_generic"""
    low = lambda c: c + 32 if 65 <= c <= 90 else c

    def tail(i):
        while True:
            c = _at(name, i)
            i += 1
            if c == 0 or c == 58:
                return True
            if c != 32 and c != 46:
                return False

    def ncase(n, ia):
        for k in range(n):
            x, y = low(_at(name, ia + k)), low(_at(dotgit, k))
            if x != y:
                return False
            if x == 0:
                return True
        return True
    if _at(name, 0) == 46 and ncase(len(dotgit), 1):
        return tail(len(dotgit) + 1)
    if ncase(6, 0) and _at(name, 6) == 126 and 49 <= _at(name, 7) <= 52:
        return tail(8)
    i, saw = 0, False
    while i < 8:
        c = _at(name, i)
        if c == 0:
            return False
        if saw:
            if c < 48 or c > 57:
                return False
        elif c == 126:
            i += 1
            if not 49 <= _at(name, i) <= 57:
                return False
            saw = True
        elif i >= 6 or c & 0x80 or low(c) != _at(short, i):
            return False
        i += 1
    return tail(i)


def dotfile_variant(n):
    """an HFS+ / NTFS variant (in git's sense) of .gitattributes, .gitignore or .mailmap"""
    return any(git_ntfs_dot(n, d, sh) or strip_ign(n).lower() == b"." + d
               for d, sh in ((b"gitattributes", b"gi7d29"), (b"gitignore", b"gi250a"), (b"mailmap", b"maba30")))


def gitmodules_after_backslash(n):
    return any(ch == 92 and git_ntfs_dot(n[k + 1:]) for k, ch in enumerate(n))


def long_name(n):
    return (b"n" * n)


def rnd_hash(rng):
    return bytes(rng.randrange(256) for _ in range(20)).hex()


def hash_for(rng, mode):
    if (mode & 0o170000) == 0o40000:
        return TREE
    if (mode & 0o170000) == 0o160000:
        return rnd_hash(rng)
    return BLOB


def rnd_entries(rng, n, names):
    es, used = [], set()
    for _ in range(n):
        nm = rng.choice(names)
        if nm in used:
            continue
        used.add(nm)
        m = rng.choice(MODES_OK)
        es.append({"mode": m, "name": nm.hex(), "hash": hash_for(rng, m)})
    return es


def gen_dec(rng, bucket, tier="quick"):
    if bucket == "dec-valid":
        es = sorted(rnd_entries(rng, rng.randrange(0, 8), PLAIN), key=git_key)
        raw = py_encode(es)
    elif bucket == "dec-unsorted":
        es = rnd_entries(rng, rng.randrange(2, 7), PLAIN)
        rng.shuffle(es)
        raw = py_encode(es)
    elif bucket == "dec-dups":
        base = rng.choice([b"foo", b"a", b"foo.bar"])
        es = [{"mode": 0o100644, "name": base.hex(), "hash": BLOB}, {"mode": 0o40000, "name": base.hex(), "hash": TREE}]
        es += rnd_entries(rng, rng.randrange(0, 4), [base + b".x", base + b"-", base + b"0", base + b".bar", base + b".bar.baz", b"b", b"A"])
        if rng.random() < 0.3:
            es.append(dict(rng.choice(es)))
        es = sorted(es, key=git_key) if rng.random() < 0.7 else es
        raw = py_encode(es)
    elif bucket == "dec-modes":
        es = []
        for k in range(rng.randrange(1, 5)):
            es.append(enc_entry(rng.choice(MODE_TEXTS + ([LONG_MODE] if tier == "thorough" else [])), b"%c%d" % (97 + k, k), BLOB))
        raw = b"".join(es)
    elif bucket == "dec-names":
        def nm():
            k = rng.randrange(4)
            n = gen_hfs_name(rng) if k == 0 else gen_ntfs_name(rng) if k == 1 else b""
            return n if n and b"\0" not in n else rng.choice(DISGUISE + DOTFILES + ODD + [long_name(4096), long_name(4097), long_name(5000)])
        raw = b"".join(enc_entry(rng.choice([b"100644", b"100644", b"120000"]), nm(),
                                 rng.choice([BLOB, BLOB, ZERO, rnd_hash(rng)])) for _ in range(rng.randrange(1, 4)))
    elif bucket == "dec-truncated":
        es = sorted(rnd_entries(rng, rng.randrange(1, 4), PLAIN), key=git_key)
        raw = py_encode(es)
        k = rng.randrange(4)
        if k == 0:
            raw = raw[:rng.randrange(len(raw))]
        elif k == 1:
            raw = raw + bytes(rng.randrange(256) for _ in range(rng.randrange(1, 30)))
        elif k == 2:
            i = rng.randrange(len(raw))
            raw = raw[:i] + bytes([rng.choice([0, 32, 48, 255])]) + raw[i + 1:]
        else:
            i = rng.randrange(len(raw))
            raw = raw[:i] + raw[i + 1:]
    else:
        raw = bytes(rng.choice(b"10046 \0ab\xff7") for _ in range(rng.randrange(0, 60)))
    return {"op": "dec", "bucket": bucket, "raw": raw.hex()}


def gen_enc(rng, bucket):
    sort = True
    es = rnd_entries(rng, rng.randrange(0, 6), PLAIN)
    if bucket == "enc-names":
        pool = rng.choice([DISGUISE, DOTFILES, ODD, DISGUISE + DOTFILES + ODD])
        for _ in range(rng.choice([1, 1, 2])):
            m = rng.choice(MODES_OK)
            es.append({"mode": m, "name": rng.choice(pool).hex(), "hash": hash_for(rng, m)})
    elif bucket in ("enc-hfs", "enc-ntfs"):
        es = es[:2]
        nm = b""
        while not nm:
            nm = gen_hfs_name(rng) if bucket == "enc-hfs" else gen_ntfs_name(rng)
        m = rng.choice(DISGUISE_MODES)
        es.append({"mode": m, "name": nm.hex(), "hash": hash_for(rng, m)})
    elif bucket == "enc-symlink-dotfiles":
        es.append({"mode": rng.choice([0o120000, 0o120000, 0o100644]), "name": rng.choice(DOTFILES).hex(), "hash": BLOB})
    elif bucket == "enc-modes":
        for k in range(rng.choice([1, 2])):
            m = rng.choice(MODES_ODD + MODES_OK)
            es.append({"mode": m, "name": b"m%d" % k, "hash": hash_for(rng, m)})
            es[-1]["name"] = es[-1]["name"].hex()
    elif bucket == "enc-prefix":
        # a name and its "name<byte>" neighbours around '/': where a directory sorts differently from everything else
        base = rng.choice([b"a", b"foo", b"foo.bar", b"x.go"])
        m = rng.choice([0o40000, 0o160000, 0o100644, 0o120000, 0o160000])
        es = [{"mode": m, "name": base.hex(), "hash": hash_for(rng, m)}]
        for suf in rng.sample([b".x", b"-", b"0", b".bar", b" ", b"+", b"/x", b"~", b".", b"_"], rng.randrange(1, 5)):
            m2 = rng.choice(MODES_OK)
            es.append({"mode": m2, "name": (base + suf).hex(), "hash": hash_for(rng, m2)})
        es += rnd_entries(rng, rng.randrange(0, 3), [b"A", b"b", b"z", b"0"])
    elif bucket == "enc-dups":
        base = rng.choice([b"foo", b"a", b"foo.bar"])
        es.append({"mode": 0o100644, "name": base.hex(), "hash": BLOB})
        es.append({"mode": rng.choice([0o40000, 0o100644, 0o100755, 0o160000]), "name": base.hex(), "hash": TREE})
        es += rnd_entries(rng, rng.randrange(0, 3), [base + b".x", base + b"-", base + b"0", base + b".bar"])
    elif bucket == "enc-unsorted":
        sort = False
        if rng.random() < 0.4:
            es.sort(key=git_key)
            if len(es) > 1 and rng.random() < 0.5:
                i = rng.randrange(len(es) - 1)
                es[i], es[i + 1] = es[i + 1], es[i]
        else:
            rng.shuffle(es)
    elif bucket == "enc-null":
        es.append({"mode": rng.choice(MODES_OK), "name": b"nul".hex(), "hash": ZERO})
    elif bucket == "enc-long":
        es.append({"mode": 0o100644, "name": long_name(rng.choice([4095, 4096, 4097, 6000])).hex(), "hash": BLOB})
    # duplicates by accident are removed except in the duplicate bucket
    if bucket != "enc-dups":
        seen, out = set(), []
        for e in es:
            if e["name"] not in seen:
                seen.add(e["name"])
                out.append(e)
        es = out
    return {"op": "enc", "bucket": bucket, "sort": sort, "entries": es}


def parse_ls(data):
    """git ls-tree -z output -> [(mode, name, oid)]"""
    out = []
    for rec in data.split(b"\0"):
        if not rec:
            continue
        meta, name = rec.split(b"\t", 1)
        mode, _typ, oid = meta.split(b" ")
        out.append((int(mode, 8), name, oid.decode()))
    return out


def parse_impl_entries(out):
    if not out.startswith("( ok"):
        return None
    return [(int(m.group(1)), bytes.fromhex(m.group(2)), m.group(3))
            for m in re.finditer(r"\( (\d+) x([0-9a-f]*) x([0-9a-f]*) \)", out)]


class Main(Suite):
    name = "main"
    go_cmd = "c04"
    coq_imports = "From GoGit Require Import Model.TreeObj Spec.GitTree."
    quick_n = 260
    thorough_n = 2500
    coq_chunk = 200

    def gen(self, rng, n, tier):
        buckets = [(3, "dec-valid"), (2, "dec-unsorted"), (2, "dec-dups"), (4, "dec-modes"), (3, "dec-names"), (4, "dec-truncated"), (1, "dec-random"),
                   (3, "enc-valid"), (4, "enc-prefix"), (5, "enc-names"), (3, "enc-symlink-dotfiles"), (3, "enc-modes"), (2, "enc-dups"), (3, "enc-unsorted"),
                   (1, "enc-null"), (1, "enc-long"), (7, "enc-hfs"), (7, "enc-ntfs")]
        out = grid_cases()
        for _ in range(n):
            b = pick_weighted(rng, buckets)
            out.append(gen_dec(rng, b, tier) if b.startswith("dec") else gen_enc(rng, b))
        return out

    def model_expr(self, c):
        if c["op"] == "dec":
            return 'c04_dec 20 "%s"' % c["raw"]
        ents = coq_list(['(%s, "%s", "%s")' % (coq_Z(e["mode"]), e["name"], e["hash"]) for e in c["entries"]])
        return "c04_enc %s %s" % ("true" if c["sort"] else "false", ents)

    def nontrivial(self, c):
        return c["bucket"] not in ("dec-valid", "enc-valid") or len(c.get("entries", [])) > 1 or len(c.get("raw", "")) > 60

    # ---- git's verdicts on every tree of the run
    def submitted(self, c):
        """the entry order the harness hands to Encode"""
        return sorted(c["entries"], key=git_key) if c["sort"] else list(c["entries"])

    def git_results(self, ctx, cases, impl):
        if getattr(self, "_for", None) is cases:
            return self._res
        repo = os.path.join(ctx.tmp, "git-%d" % len(os.listdir(ctx.tmp)))
        os.makedirs(repo)
        e = dict(GITENV)
        e["HOME"] = repo
        subprocess.run(["/usr/bin/git", "init", "-q", "-b", "main", "."], cwd=repo, env=e, check=True, stdout=subprocess.DEVNULL)
        gd = os.path.join(repo, ".git")
        write_obj(gd, "blob", b"")
        write_obj(gd, "tree", b"")
        trees = {}                     # (case id, kind) -> (oid, raw)
        for c in cases:
            i = c["id"]
            if c["op"] == "dec":
                raw = bytes.fromhex(c["raw"])
                trees[(i, "raw")] = (write_obj(gd, "tree", raw), raw)
            else:
                r = impl.get(i)
                m = re.match(r"^\( ok x([0-9a-f]*) \)$", r["out"]) if r else None
                if m:
                    raw = bytes.fromhex(m.group(1))
                    trees[(i, "written")] = (write_obj(gd, "tree", raw), raw)
                es = self.submitted(c)
                if all(0 <= x["mode"] < 2 ** 32 and len(x["hash"]) == 40 for x in es):
                    raw = py_encode(es)
                    trees[(i, "canon")] = (write_obj(gd, "tree", raw), raw)
        oids = sorted({o for o, _ in trees.values()})

        def ls(oid):
            p = subprocess.run(["/usr/bin/git", "ls-tree", "-z", oid], cwd=repo, env=e, stdout=subprocess.PIPE, stderr=subprocess.PIPE, timeout=60)
            return oid, (parse_ls(p.stdout) if p.returncode == 0 else None)

        with ThreadPoolExecutor(max_workers=8) as ex:
            lsres = dict(ex.map(ls, oids))
        p = subprocess.run(["/usr/bin/git", "fsck", "--strict", "--no-dangling", "--no-progress"], cwd=repo, env=e,
                           stdout=subprocess.PIPE, stderr=subprocess.STDOUT, timeout=600)
        fsck = {o: set() for o in oids}
        for line in p.stdout.decode("latin-1").splitlines():
            m = re.match(r"^(error|warning) in tree ([0-9a-f]{40}): (\w+):", line)
            if m and m.group(2) in fsck and m.group(3) in ERRORS:
                fsck[m.group(2)].add(m.group(3))
        self._for, self._res = cases, {k: (oid, raw, lsres[oid], fsck[oid]) for k, (oid, raw) in trees.items()}
        return self._res

    def oracle(self, ctx, cases, impl, model):
        fails = {}
        git = self.git_results(ctx, cases, impl)
        for c in cases:
            i = c["id"]
            r = impl.get(i)
            if r is None:
                continue
            if c["op"] == "dec":
                _, _, ls, _ = git[(i, "raw")]
                if ls is None:
                    continue                                         # git cannot list it either: no claim
                mine = parse_impl_entries(r["out"])
                if mine != ls:
                    fails[i] = "go-git decodes %s, git ls-tree lists %s" % (brief(mine), brief(ls))
                continue
            es = self.submitted(c)
            want = [(x["mode"], bytes.fromhex(x["name"]), x["hash"]) for x in es]
            if (i, "written") in git:
                _, _, ls, errs = git[(i, "written")]
                if errs:
                    fails[i] = "go-git wrote a tree git fsck --strict rejects: %s" % sorted(errs)
                elif ls != [(canon_mode(m), n, h) for m, n, h in want]:
                    fails[i] = "the tree go-git wrote lists as %s, not the entries %s" % (brief(ls), brief(want))
            elif (i, "canon") in git:
                _, _, ls, errs = git[(i, "canon")]
                if not errs and ls == want:
                    fails[i] = "go-git refuses (%s) an entry list git accepts: fsck --strict clean, ls-tree lists it back" % r["out"]
        return fails

    def finding_class(self, c, reason, reply):
        if c["op"] == "dec":
            raw = bytes.fromhex(c["raw"])
            if reply and "malformed" in reply["out"] and re.search(rb"(^|[\0-\xff]{20})[0-7]{8,} ", raw, re.S):
                return "mode-over-7-digits"
            return None
        names = [bytes.fromhex(x["name"]) for x in c["entries"]]
        if "rejects" in reason:
            if "['gitmodulesSymlink']" in reason and \
                    any(x["mode"] == 0o120000 and gitmodules_after_backslash(bytes.fromhex(x["name"])) for x in c["entries"]):
                return "gitmodules-symlink-after-backslash"
            # .git / .gitmodules (HFS+-ignorable code points skipped, any case), then a sequence git calls malformed
            if "['hasDotgit']" in reason and any(not git_wf_utf8(n) and strip_ign(n).lower().startswith(b".git") for n in names):
                return "hfs-dotgit-malformed-tail"
            if "['gitmodulesSymlink']" in reason and any(x["mode"] == 0o120000 and not git_wf_utf8(bytes.fromhex(x["name"])) and
                                                         strip_ign(bytes.fromhex(x["name"])).lower().startswith(b".gitmodules") for x in c["entries"]):
                return "hfs-dotgit-malformed-tail"
            return None
        if "refuses" in reason:
            if any(any(ch < 0x20 or ch == 0x7f for ch in n) for n in names):
                return "name-control-char"
            if any(b"\\" in n for n in names):
                return "name-backslash"
            if any(len(n) > 4096 for n in names):
                return "name-over-4096"
            if any(b"\xc4\xb0" in n for n in names):
                return "dotgit-u0130-fold"
            if any(x["mode"] == 0o120000 and dotfile_variant(bytes.fromhex(x["name"])) for x in c["entries"]):
                return "dotfile-symlink"
        return None

    # ---- C-git: S (Spec/GitTree) against the git binary
    def extra(self, ctx, cases, impl, model):
        git = self.git_results(ctx, cases, impl)
        uniq = {}
        for (_i, _k), (oid, raw, ls, errs) in sorted(git.items()):
            if len(raw) <= 12000:
                uniq[oid] = (raw, ls, errs)
        oids = sorted(uniq)
        if ctx.tier == "quick":
            # every tree of the HFS+/NTFS disguise buckets (the transcriptions of is_hfs_dot_generic, is_ntfs_dotgit and
            # is_ntfs_dot_generic) and a spread sample of the rest; the thorough tier takes every tree
            byid = {c["id"]: c for c in cases}
            focus = sorted({oid for (i, _k), (oid, raw, _l, _e) in git.items()
                            if byid[i]["bucket"] in ("enc-hfs", "enc-ntfs", "enc-grid") and oid in uniq})
            rest = [o for o in oids if o not in set(focus)]
            oids = sorted(set(focus[:170] + rest[::max(1, len(rest) // 70)]))
        ls_out = ctx.coq_eval(self.coq_imports, ['c04_git_ls 20 "%s"' % uniq[o][0].hex() for o in oids], chunk=self.coq_chunk)
        fs_out = ctx.coq_eval(self.coq_imports, ['c04_git_fsck 20 "%s"' % uniq[o][0].hex() for o in oids], chunk=self.coq_chunk)
        bad = 0
        for o, a, b in zip(oids, ls_out, fs_out):
            raw, ls, errs = uniq[o]
            want_ls = "( err malformed )" if ls is None else "( ok" + "".join(" ( %d x%s x%s )" % (m, n.hex(), h) for m, n, h in ls) + " )"
            got_fs = set(re.findall(r"[A-Za-z0-9]+", b or "")) if b is not None else None
            if a != want_ls or got_fs != errs:
                bad += 1
                ctx.notes.append("spec_mismatch on tree %s: ls S=%s git=%s ; fsck S=%s git=%s" % (raw.hex()[:400], (a or "")[:200], want_ls[:200], b, sorted(errs)))
        return {"spec_vs_git_trees": len(oids), "spec_mismatches": bad}


def canon_mode(m):
    """cache.h canon_mode: what ls-tree shows for a stored mode"""
    t = m & 0o170000
    if t == 0o100000:
        return 0o100755 if m & 0o100 else 0o100644
    if t == 0o120000:
        return 0o120000
    if t == 0o40000:
        return 0o40000
    return 0o160000


def brief(x):
    return repr(x)[:260]


SUITES = [Main()]
