"""C51 Commit-graph files interoperate with git (DESIGN.md §4.C51)."""
import os
import shutil
import subprocess
import tempfile
from vf.core import Suite
from vf.gen import pick_weighted
from props import b16dag as D

ID = "C51"
THEOREMS = ["C51_table_consistent", "C51_reader_accepts", "C51_commit_data", "C51_lookup", "C51_roundtrip", "C51_roundtrip_exact", "C51_derived",
            "C51_time_generation_word", "C51_overflow_count_before_fix_refuted"]
MODEL_FILES = ["CommitGraph.v"]
MODELLED = ("plumbing/format/commitgraph: MemoryIndex.Add/HasGenerationV2, CommitData.GenerationV2Data, Encoder.Encode (prepare, "
            "chunk table, fanout, OID lookup, commit data incl. octopus edges, generation data + overflow) and the fileIndex reader "
            "(OpenFileIndex: header, size, chunk table, chunk sizes, fanout; GetCommitDataByIndex; GetHashByIndex; GetIndexByHash) in "
            "Model/CommitGraph.v; split graphs: OpenFileIndexWithParent (hasGenerationV2 = own && parent's, minimumNumberOfHashes) and the "
            "parent fall-through of GetCommitDataByIndex / GetHashByIndex / getHashesFromIndexes / GetIndexByHash over a chain of files "
            "(ch_commit_data, ch_hash, ch_index_by_hash), compared with go-git on chains written by git commit-graph write --split; "
            "not modelled: the SHA-1 trailer (checked by the oracle), chain.go's reading of the commit-graph-chain text file and "
            "file opening (OpenChainFile/OpenChainIndex: the harness hands the layer files over in chain order), the BASE chunk "
            "(ignored by go-git), commitnode_graph.go (exercised by C43)")
LEVEL_NOTE = ("trusted: Coq 8.16.1 kernel; the correspondence harness; gotrans constants (parentNone, parentOctopusUsed, parentLast, "
              "chunk sizes) regenerated from the Go source on every run; theorems: chunk-table consistency of the encoder model and "
              "acceptance of its output by the reader model (header, table of contents, sizes, fanout) for all well-formed inputs; "
              "per-commit read-back (C51_commit_data), decode (encode g) = Ok g (C51_roundtrip) and agreement with the numbers derived "
              "from the history by Spec/Dag.generation and Spec/DagGen2.corrected_date (C51_derived), the latter spec compared with the "
              "numbers inside files written by the git binary on every run; SHA-1 trailer checked by the oracle")
TRUSTED = [
    "C-impl: commitgraph.Encoder.Encode / OpenFileIndex vs Model/CommitGraph encode / dump on every case",
    "C-git: git commit-graph verify on every file go-git writes; git commit-graph write --reachable [--split] files read by go-git and compared with values derived from the commit objects",
    "C-git (S): Spec/Dag.generation and Spec/DagGen2.corrected_date evaluated in Coq vs the CDAT/GDA2/GDO2 numbers parsed (python, independent of go-git) out of files written by git commit-graph write: spec_mismatches must be 0",
]
ASSUMPTIONS = ["generation numbers given to the encoder are git's (level = 1 + max parent level, corrected date = max(ctime, 1 + max parent corrected date))"]
RULE = ("enc: DAG (chain/diamond/octopus/random; timestamps monotone, skewed, or with one parent dated 2^31-2..2^32+5 s after its child "
        "so that generation-v2 offsets straddle 2^31 and 2^32; ovf: one or two commits dated far ahead of several descendants, so that "
        "several commits use overflow slots >= 1 interleaved in id order with commits that use none) materialised with git, entries "
        "added in shuffled order; dec: files written by git commit-graph write (plain, --changed-paths, --split chains of 2-3 layers) "
        "plus mutated / truncated files and chains with a mutated layer; non-trivial = a merge or an offset >= 2^31 (enc) / any file "
        "(dec); distinct by content")

BIG = [2**31 - 3, 2**31 - 2, 2**31 - 1, 2**31, 2**31 + 1, 2**32 - 3, 2**32 - 2, 2**32 - 1, 2**32, 2**32 + 5]


def commit_id(parents, t, msg):
    """id of the commit `git fast-import` creates for (parents, time, message) with the fixed identity and the empty tree"""
    import hashlib
    data = (b"tree " + D.EMPTY_TREE.encode() + b"\n" + b"".join(b"parent " + p.encode() + b"\n" for p in parents)
            + b"author V <v@example.com> %d +0000\ncommitter V <v@example.com> %d +0000\n\n" % (t, t) + msg)
    return hashlib.sha1(b"commit %d\0" % len(data) + data).hexdigest()


def fanout_dag(rng):
    """a history whose commit ids hit the fanout boundaries: first bytes 00, 01, fe, ff (times chosen by search)"""
    k = rng.choice([3, 4, 5, 6])
    par = D.shape(rng, rng.choice(["chain", "diamond", "random"]), k)
    targets = [rng.choice(["00", "00", "01", "ff", "ff", "fe", None]) for _ in range(k)]
    times, ids, t = [], [], D.T0
    for i in range(k):
        t = max([times[p] for p in par[i]] + [t]) + 1
        for _ in range(4000):
            h = commit_id([ids[p] for p in par[i]], t, b"node %d\n" % i)
            if targets[i] is None or h.startswith(targets[i]):
                break
            t += 1
        times.append(t)
        ids.append(h)
    return par, times


def dag_for(rng, bucket):
    if bucket == "fanout":
        return fanout_dag(rng)
    k = rng.choice([1, 2, 3, 4, 5, 6, 8])
    if bucket == "octopus":
        k = max(k, 5)
        par = D.shape(rng, "octopus", k)
        par[k - 1] = rng.sample(range(k - 1), rng.choice([3, 4, min(5, k - 1)]))
    else:
        par = D.shape(rng, rng.choice(["chain", "diamond", "crisscross", "random", "forest"]), k)
    if bucket == "skew":
        times = D.stamp(rng, rng.choice(["skew", "reversed", "perm", "equal"]), par)
    elif bucket == "ovf":
        # several overflow slots: ancestors dated >= 2^31 s ahead of a whole subgraph, other components untouched
        par = D.shape(rng, rng.choice(["chain", "diamond", "forest", "random", "octopus"]), rng.choice([5, 6, 7, 8, 9]))
        times = D.stamp(rng, "mono", par)
        for p in rng.sample(range(max(2, len(par) // 2)), rng.choice([1, 1, 2])):
            times[p] = times[p] + rng.choice(BIG + [3 * 10**9, 2**33])
    elif bucket.startswith("big"):
        times = D.stamp(rng, "mono", par)
        # one or two parents dated far in the future of their children
        edges = [(i, p) for i in range(len(par)) for p in par[i]]
        for _ in range(1 if bucket == "big1" else 2):
            if edges:
                i, p = rng.choice(edges)
                times[p] = times[i] + rng.choice(BIG)
    else:
        times = D.stamp(rng, "mono", par)
    return par, times


class Enc(Suite):
    name = "enc"
    go_cmd = "c51"
    coq_imports = "From GoGit Require Import Model.CommitGraph."
    quick_n = 50
    thorough_n = 1500

    def gen(self, rng, n, tier):
        tmp = tempfile.mkdtemp(prefix="verif-C51-gen-")
        try:
            dags = []
            repo = D.GitDags(tmp)
            for j in range(n):
                b = pick_weighted(rng, [(3, "mono"), (2, "skew"), (2, "octopus"), (3, "big1"), (2, "big2"), (3, "ovf"), (2, "fanout")])
                par, times = dag_for(rng, b)
                repo.add(j, par, times)
                dags.append((b, par, times))
            repo.flush()
            cases = []
            for j, (b, par, times) in enumerate(dags):
                g1, g2 = D.gen_numbers(par, times)
                ents = [{"hash": repo.sha[(j, i)], "tree": D.EMPTY_TREE, "parents": [repo.sha[(j, p)] for p in par[i]],
                         "gen": g1[i], "gen2": g2[i], "when": times[i]} for i in range(len(par))]
                order = list(range(len(par)))
                rng.shuffle(order)
                cases.append({"op": "encode", "par": par, "times": times, "entries": [ents[i] for i in order], "bucket": "enc/" + b})
            return cases
        finally:
            shutil.rmtree(tmp, ignore_errors=True)

    def model_expr(self, c):
        hs = [e["hash"] for e in c["entries"]]
        pos = {h: i for i, h in enumerate(hs)}
        es = ["(%d, [%s], %d%%N, %d%%N, (%d)%%Z)" % (i, "; ".join("%d" % pos[p] for p in e["parents"]), e["gen"], e["gen2"], e["when"])
              for i, e in enumerate(c["entries"])]
        return 'c51_encode "%s" [%s] [%s]' % (c["entries"][0]["tree"], "; ".join('"%s"' % h for h in hs), "; ".join(es))

    def nontrivial(self, c):
        return any(len(e["parents"]) > 1 or e["gen2"] - e["when"] >= 2**31 for e in c["entries"])

    @staticmethod
    def derived(entries):
        """hash -> canonical dump text of one commit as the reader must report it"""
        hs = sorted(e["hash"] for e in entries)
        pos = {h: i for i, h in enumerate(hs)}
        want = {}
        for e in entries:
            want[e["hash"]] = "( x%s (%s ) (%s ) %d %d %d )" % (
                e["tree"], "".join(" %d" % pos[p] for p in e["parents"]), "".join(" x" + p for p in e["parents"]),
                e["gen"], e["gen2"], e["when"])
        return hs, want

    def oracle(self, ctx, cases, impl, model):
        fails = {}
        repo = D.GitDags(ctx.tmp)
        for c in cases:
            repo.add(c["id"], c["par"], c["times"])
        repo.flush()
        info = os.path.join(repo.dir, "objects", "info")
        os.makedirs(info, exist_ok=True)
        for c in cases:
            r = impl.get(c["id"])
            if not r or not isinstance(r.get("extra"), dict):
                fails[c["id"]] = "encoder gave no file: %s" % (r["out"][:80] if r else "<no reply>")
                continue
            if not r["extra"].get("trailer_ok"):
                fails[c["id"]] = "trailer is not the SHA-1 of the preceding bytes"
                continue
            if [repo.sha[(c["id"], i)] for i in range(len(c["par"]))] != sorted([e["hash"] for e in c["entries"]], key=lambda h: [repo.sha[(c["id"], i)] for i in range(len(c["par"]))].index(h)):
                fails[c["id"]] = "harness: commit ids of the case do not match the re-materialised DAG"
                continue
            with open(os.path.join(info, "commit-graph"), "wb") as f:
                f.write(bytes.fromhex(r["extra"]["file"]))
            rc, out, err = repo.git("commit-graph", "verify")
            if rc != 0:
                fails[c["id"]] = "git commit-graph verify: " + (err.strip().splitlines() or ["rc=%d" % rc])[0][:160]
                continue
            # go-git reads back what was put in
            hs, want = self.derived(c["entries"])
            exp = "( ok true %d (%s ) (%s ) )" % (len(hs), "".join(" " + want[h] for h in hs),
                                                  "".join(" ( x%s %d )" % (h, i) for i, h in enumerate(hs)))
            got = r["extra"].get("dump", "")
            if got != exp:
                fails[c["id"]] = "read-back differs from the input graph: %s vs %s" % (got[:6000], exp[:6000])
        try:
            os.remove(os.path.join(info, "commit-graph"))
        except OSError:
            pass
        return fails

    def extra(self, ctx, cases, impl, model):
        slots = [sum(1 for e in c["entries"] if e["gen2"] - e["when"] >= 2**31) for c in cases]
        return {"cases_with_two_or_more_overflow_slots": sum(1 for x in slots if x >= 2), "max_overflow_slots": max(slots or [0]),
                "cases_with_octopus": sum(1 for c in cases if any(len(e["parents"]) > 2 for e in c["entries"]))}

    def finding_class(self, case, reason, reply):
        if reason.startswith("git commit-graph verify") and any(2**31 <= e["gen2"] - e["when"] < 2**32 for e in case["entries"]):
            return "genv2-offset-2p31-2p32-overflow-chunk"
        return None


def rle(data):
    """bytes -> [[count, hexword], ...] over 4-byte words"""
    out = []
    for i in range(0, len(data), 4):
        w = data[i:i + 4].hex()
        if out and out[-1][1] == w:
            out[-1][0] += 1
        else:
            out.append([1, w])
    return out


def mutate(rng, data):
    b = bytearray(data)
    r = rng.random()
    if r < 0.25:
        return bytes(b[:rng.randrange(len(b))])                       # truncation
    if r < 0.6:
        i = rng.randrange(min(len(b), 8 + 12 * 8))                    # header / chunk table
        b[i] = rng.choice([0, 1, 2, 0x7f, 0x80, 0xff, b[i] ^ 1, b[i] ^ 0x80])
        return bytes(b)
    if r < 0.8 and len(b) > 1100:
        i = rng.randrange(1032 + 8, len(b))                           # fanout / data
        b[i] = rng.choice([0, 0x70, 0x80, 0xff, b[i] ^ 1])
        return bytes(b)
    i = rng.randrange(len(b))
    b[i] ^= 1 << rng.randrange(8)
    return bytes(b)


class Dec(Suite):
    name = "dec"
    go_cmd = "c51"
    coq_imports = "From GoGit Require Import Model.CommitGraph."
    quick_n = 36
    thorough_n = 600

    def gen(self, rng, n, tier):
        cases = []
        tmp = tempfile.mkdtemp(prefix="verif-C51-gen-")
        try:
            j = 0
            while len(cases) < n:
                j += 1
                b = pick_weighted(rng, [(3, "mono"), (2, "skew"), (2, "octopus"), (2, "big1"), (1, "big2"), (3, "ovf"), (2, "fanout")])
                par, times = dag_for(rng, b)
                root = os.path.join(tmp, "r%d" % j)
                os.makedirs(root)
                repo = D.one_repo(root, par, times)
                shas = [repo.sha[(0, i)] for i in range(len(par))]
                mode = pick_weighted(rng, [(4, "plain"), (1, "paths"), (4, "split")])
                if mode == "split" and len(par) < 3:
                    mode = "plain"
                if mode == "split" and len(par) >= 3:
                    cuts = sorted(rng.sample(range(1, len(par)), 2 if len(par) >= 5 and rng.random() < 0.5 else 1)) + [len(par)]
                    ok = True
                    for k in cuts:
                        pw = subprocess.run([D.GIT, "--git-dir", repo.dir, "commit-graph", "write", "--split=no-merge", "--stdin-commits"],
                                            input=("\n".join(shas[:k]) + "\n").encode(), env=D.GENV, capture_output=True)
                        ok = ok and pw.returncode == 0
                    cdir = os.path.join(repo.dir, "objects", "info", "commit-graphs")
                    chain = os.path.join(cdir, "commit-graph-chain")
                    if not ok or not os.path.exists(chain):
                        continue
                    raw = [open(os.path.join(cdir, "graph-%s.graph" % h.strip()), "rb").read() for h in open(chain)]
                    cases.append({"op": "chain", "files": [rle(x) for x in raw], "par": par, "times": times, "shas": shas, "cuts": cuts,
                                  "bucket": "dec/split%d/%s" % (len(raw), b)})
                    if len(cases) < n and len(raw) >= 2:
                        # a chain with one damaged layer (no oracle: only impl = model)
                        j2 = rng.randrange(len(raw))
                        bad = list(raw)
                        bad[j2] = mutate(rng, raw[j2])
                        cases.append({"op": "chain", "files": [rle(x) for x in bad], "bucket": "dec/split-mutated"})
                    shutil.rmtree(root, ignore_errors=True)
                    continue
                args = ["commit-graph", "write", "--reachable"] + (["--changed-paths"] if mode == "paths" else [])
                rc, _, err = repo.git(*args)
                path = os.path.join(repo.dir, "objects", "info", "commit-graph")
                if rc != 0 or not os.path.exists(path):
                    continue
                data = open(path, "rb").read()
                cases.append({"op": "decode", "file": rle(data), "par": par, "times": times, "shas": shas, "bucket": "dec/git/%s/%s" % (mode, b)})
                for _ in range(2):
                    if len(cases) < n:
                        cases.append({"op": "decode", "file": rle(mutate(rng, data)), "bucket": "dec/mutated"})
                shutil.rmtree(root, ignore_errors=True)
            return cases
        finally:
            shutil.rmtree(tmp, ignore_errors=True)

    def model_expr(self, c):
        if c["op"] == "decode":
            return "c51_decode [%s]" % "; ".join('(%d%%N, "%s")' % (n, w) for n, w in c["file"])
        if c["op"] == "chain":
            return "c51_chain [%s]" % "; ".join("[%s]" % "; ".join('(%d%%N, "%s")' % (n, w) for n, w in f) for f in c["files"])
        return None

    def nontrivial(self, c):
        return True

    def oracle(self, ctx, cases, impl, model):
        """files written by git must be read with parents, tree, time and generation numbers equal to those derived from the commits"""
        fails = {}
        for c in cases:
            if "shas" not in c:
                continue
            r = impl.get(c["id"])
            ex = (r.get("extra") or {}) if r else {}
            got = ex.get("dump", " ".join(ex["dumps"]) if "dumps" in ex else r["out"]) if r else "<no reply>"
            par, times, shas = c["par"], c["times"], c["shas"]
            g1, g2 = D.gen_numbers(par, times)
            ents = [{"hash": shas[i], "tree": D.EMPTY_TREE, "parents": [shas[p] for p in par[i]], "gen": g1[i], "gen2": g2[i],
                     "when": times[i]} for i in range(len(par))]
            if c["op"] == "decode":
                hs, want = Enc.derived(ents)
                exp = "( ok true %d (%s ) (%s ) )" % (len(hs), "".join(" " + want[h] for h in hs),
                                                      "".join(" ( x%s %d )" % (h, i) for i, h in enumerate(hs)))
                if got != exp:
                    fails[c["id"]] = "git-written commit-graph read differently from the commit objects: %s vs %s" % (got[:300], exp[:300])
            else:
                # chain: layer j holds the commits first reachable from shas[:cuts[j]] (topological numbering: nodes
                # cuts[j-1]..cuts[j]-1) in id order; positions are global (base of the layer + rank in the layer)
                exp = chain_expected(ents, c["cuts"])
                if got != exp:
                    fails[c["id"]] = "split commit-graph read differently from the commit objects: %s vs %s" % (got[:400], exp[:400])
        return fails

    def extra(self, ctx, cases, impl, model):
        return spec_vs_git(ctx, cases)


def chain_expected(ents, cuts):
    pos, layers, base, lo = {}, [], 0, 0
    for hi in cuts:
        hs = sorted(ents[i]["hash"] for i in range(lo, hi))
        for r, h in enumerate(hs):
            pos[h] = base + r
        layers.append(hs)
        base += len(hs)
        lo = hi
    by = {e["hash"]: e for e in ents}
    outs = []
    for hs in layers:
        cds = "".join(" ( x%s (%s ) (%s ) %d %d %d )" % (by[h]["tree"], "".join(" %d" % pos[p] for p in by[h]["parents"]),
                                                        "".join(" x" + p for p in by[h]["parents"]), by[h]["gen"], by[h]["gen2"],
                                                        by[h]["when"]) for h in hs)
        outs.append("( ok true %d (%s ) (%s ) )" % (len(hs), cds, "".join(" ( x%s %d )" % (h, pos[h]) for h in hs)))
    return " ".join(outs)


def parse_git_graph(data):
    """independent reader of a single commit-graph file written by git: id -> (level, corrected commit date)"""
    import struct
    assert data[:4] == b"CGPH" and data[4] == 1 and data[5] == 1
    nch = data[6]
    toc = [(data[8 + 12 * i: 12 + 12 * i], struct.unpack(">Q", data[12 + 12 * i: 20 + 12 * i])[0]) for i in range(nch + 1)]
    ch = {toc[i][0]: (toc[i][1], toc[i + 1][1]) for i in range(nch)}
    n = struct.unpack(">I", data[ch[b"OIDF"][0] + 1020: ch[b"OIDF"][0] + 1024])[0]
    out = {}
    for i in range(n):
        h = data[ch[b"OIDL"][0] + 20 * i: ch[b"OIDL"][0] + 20 * i + 20].hex()
        gt = struct.unpack(">Q", data[ch[b"CDAT"][0] + 36 * i + 28: ch[b"CDAT"][0] + 36 * i + 36])[0]
        level, t = gt >> 34, gt & ((1 << 34) - 1)
        d = struct.unpack(">I", data[ch[b"GDA2"][0] + 4 * i: ch[b"GDA2"][0] + 4 * i + 4])[0]
        if d & 0x80000000:
            d = struct.unpack(">Q", data[ch[b"GDO2"][0] + 8 * (d & 0x7fffffff): ch[b"GDO2"][0] + 8 * (d & 0x7fffffff) + 8])[0]
        out[h] = (level, t + d)
    return out


def unrle(runs):
    return b"".join(bytes.fromhex(w) * n for n, w in runs)


def spec_vs_git(ctx, cases):
    """S (Spec/Dag.generation, Spec/DagGen2.corrected_date, evaluated in Coq) against the numbers git wrote"""
    sel = [c for c in cases if c.get("op") == "decode" and "shas" in c]
    if not sel:
        return {}
    outs = ctx.coq_eval("From GoGit Require Import Spec.Dag Spec.DagGen2.", ["c51_spec %s" % D.coq_dag(c["par"], c["times"]) for c in sel])
    bad, slots = [], 0
    for c, o in zip(sel, outs):
        try:
            got = parse_git_graph(unrle(c["file"]))
            want = "( " + " ".join("( %d %d )" % got[h] for h in c["shas"]) + " )"
        except Exception as e:          # git wrote a file without generation data etc.: not comparable
            want = "unparsed: %r" % e
        if o != want:
            bad.append({"par": c["par"], "times": c["times"], "spec": o, "git": want})
        slots = max(slots, sum(1 for h in c["shas"] if got[h][1] - c["times"][c["shas"].index(h)] >= 2**31) if not want.startswith("unparsed") else 0)
    if bad:
        ctx.notes.append("SPEC MISMATCH (machinery fault): Spec/Dag generation numbers differ from git's on %d histories" % len(bad))
    return {"spec_vs_git_cases": len(sel), "spec_mismatches": bad[:5], "max_overflow_slots_in_a_git_file": slots}


SUITES = [Enc(), Dec()]
