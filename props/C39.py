"""C39 The receive-pack server applies only consistent ref updates (DESIGN.md §4.C39)."""
import hashlib
import itertools
import os
import random
import shutil
import struct
import subprocess
from vf.core import Suite, coq_bool
from vf.gen import pick_weighted
from props.b10util import parse_expanded as parse_out, coq_ops, coq_universe

ID = "C39"
THEOREMS = ["C39_refines_rule", "C39_old_checked", "C39_old_checked_resolved", "C39_symbolic_refused", "C39_agrees_with_git",
            "C39_applied_subset_of_git", "C39_new_exists", "C39_run_consistent", "C39_refs_closed",
            "C39_report_exact", "C39_not_accepted_no_update"]
MODEL_FILES = ["ReceivePack.v"]
MODELLED = ("plumbing/transport/receive_pack.go (with the three fix commits): ReceivePack control flow after decoding (empty request, malformed "
            "command, duplicate-name refusal, packfile need, report-status gate, unpack-error report, PreReceive rejection, PostReceive applied "
            "list), updateReferences, currentReference, setStatus, sendReportStatus incl. the unpack line carrying the first command error "
            "(Model/ReceivePack.v) over the abstract store (Spec/AStore.v). Not modelled: pkt-line / "
            "sideband framing, capability parsing, push options, advertisement, packfile parsing (a pack is the set of its objects), "
            "context cancellation; concurrency of two pushes (every update is one storer call: C16)")
TRUSTED = [
    "C-impl: transport.ReceivePack driven by harness/cmd/c39 (wire-format request built by the harness, packs by packfile.Encoder) over memory / memfs / osfs stores vs Model/ReceivePack.c39_run",
    "C-git: the consistency rule (old value = resolved current value, symbolic references followed, update applied to the referent; new object present) vs `git receive-pack --stateless-rpc` (git 2.39.5) on generated pushes to real repositories, 15 per quick run, 120 per thorough run",
    "oracle (python, props/C39.py): replays the reported per-command outcomes on the initial references and checks old-value agreement, presence of the new object, one status per command and the final references",
]
ASSUMPTIONS = ["the storer behaves like the abstract store on Reference / SetReference / CheckAndSetReference / RemoveReference / HasEncodedObject (C17)",
               "a parsable packfile adds exactly its objects to the store"]
RULE = ("case = (store backend, initial refs/objects, report-status yes/no, command list, packfile contents or none, PreReceive verdict) over "
        "5 names (incl. HEAD) x 5 objects + 2 ids of no object; buckets: consistent client / stale old / missing new / duplicate names / mixed / "
        "no report-status / hook rejects / no pack / malformed command / symbolic server refs (HEAD -> branch, branch alias, dangling alias, "
        "chain; create / update / delete / stale commands naming them); non-trivial = at least one command; distinct by content")

NAMES = ["refs/heads/a", "refs/heads/b", "refs/tags/t", "refs/heads/c", "HEAD"]
OBJS = [[3, b"blob zero".hex()], [3, b"b1".hex()], [2, b"".hex()],
        [1, b"tree 4b825dc642cb6eb9a060e54bf8d69288fbee4904\nauthor a <a@b> 1 +0000\ncommitter a <a@b> 1 +0000\n\nm\n".hex()],
        [1, b"tree 4b825dc642cb6eb9a060e54bf8d69288fbee4904\nauthor a <a@b> 2 +0000\ncommitter a <a@b> 2 +0000\n\nn\n".hex()]]
NN, NO = len(NAMES), len(OBJS)
DANGLING = [NO, NO + 1]
BASES = [(4, "memory"), (3, "memfs"), (1, "osfs")]


def sim_init(init):
    refs, objs = {}, set()
    for o in init:
        if o[0] == "setref":
            refs[o[1]] = tuple(o[2])
        elif o[0] == "setobj":
            objs.add(o[1])
    return refs, objs


def resolve(refs, nm, fuel=8):
    """git's notion of the current value: follow symbolic references.  -> (referent, object id or -1 when the referent
    does not exist), or None when the chain does not end (a loop)"""
    while fuel > 0:
        v = refs.get(nm)
        if v is None:
            return nm, -1
        if v[0] == "h":
            return nm, v[1]
        nm, fuel = v[1], fuel - 1
    return None


def cur_id(v):
    """the object id a stored reference value compares as (-1 absent); a symbolic reference compares as no id at all"""
    if v is None:
        return -1
    return v[1] if v[0] == "h" else "sym"


class Main(Suite):
    name = "main"
    go_cmd = "c39"
    coq_imports = "From GoGit Require Import Spec.AStore Model.ReceivePack."
    quick_n = 300
    thorough_n = 2500
    coq_chunk = 250

    def exhaustive(self):
        """small scope, thorough tier: every list of <= 2 commands over 2 names x old in {zero, o0, o1} x new in
        {zero, o0, o3 (in the pack), o5 (nowhere)} on every initial state of the two names in {absent, o0}; and, with
        one of the names symbolic (-> the other name, which is absent or o0; or both symbolic: a loop), every single
        command and every pair over old in {zero, o0} x new in {zero, o0, o3}"""
        import itertools
        one = [[nm, o, w] for nm in (0, 1) for o in (-1, 0, 1) for w in (-1, 0, 3, 5)]
        small = [[nm, o, w] for nm in (0, 1) for o in (-1, 0) for w in (-1, 0, 3)]
        cases = []

        def add(init, cmds, tag):
            cases.append({"bucket": "exhaustive-%s%d" % (tag, len(cmds)), "base": "memory" if len(cases) % 4 else "memfs",
                          "names": NAMES, "objs": OBJS, "init": init, "report": True, "cmds": [list(c) for c in cmds],
                          "pack": [3], "reject": False})
        for st in itertools.product([None, 0], repeat=2):
            init = [["setobj", 0], ["setobj", 1]] + [["setref", nm, ["h", v]] for nm, v in enumerate(st) if v is not None]
            for cmds in [[c] for c in one] + [[a, b] for a in one for b in one]:
                add(init, cmds, "")
        sym_states = [{0: ["s", 1]}, {0: ["s", 1], 1: ["h", 0]}, {1: ["s", 0]}, {1: ["s", 0], 0: ["h", 0]}, {0: ["s", 1], 1: ["s", 0]}]
        for st in sym_states:
            init = [["setobj", 0], ["setobj", 1]] + [["setref", nm, v] for nm, v in sorted(st.items())]
            for cmds in [[c] for c in one] + [[a, b] for a in small for b in small if a[0] != b[0]]:
                add(init, cmds, "sym")
        return cases

    def symref_case(self, rng):
        """server stores with symbolic references — HEAD -> branch, a branch alias, a dangling alias, a chain — and
        commands of every action naming them: create (zero old), update / delete with old = the resolved value, stale
        old, old = zero; also commands on their referents"""
        HEAD, ALIAS = 4, 3
        init = []
        for nm in (0, 1):
            if rng.random() < 0.7:
                init.append(["setref", nm, ["h", rng.randrange(NO)]])
        shape = rng.randrange(5)
        if shape == 0:        # HEAD -> branch (existing or unborn)
            init.append(["setref", HEAD, ["s", rng.choice([0, 1])]])
        elif shape == 1:      # alias -> branch
            init.append(["setref", ALIAS, ["s", rng.choice([0, 1])]])
        elif shape == 2:      # dangling alias (the tag name is never set in this bucket)
            init.append(["setref", ALIAS, ["s", 2]])
        elif shape == 3:      # chain: alias -> HEAD -> branch
            init += [["setref", HEAD, ["s", rng.choice([0, 1])]], ["setref", ALIAS, ["s", HEAD]]]
        else:                 # both, independent
            init += [["setref", HEAD, ["s", 0]], ["setref", ALIAS, ["s", 1]]]
        have = [o for o in range(NO) if rng.random() < 0.6]
        init += [["setobj", o] for o in have]
        rng.shuffle(init)
        refs, objs = sim_init(init)
        pack = sorted(set(rng.randrange(NO) for _ in range(rng.randrange(0, 3))))
        avail = sorted(objs | set(pack)) or [0]
        syms = [nm for nm, v in refs.items() if v[0] == "s"]
        cmds, used = [], set()
        for _ in range(pick_weighted(rng, [(5, 1), (3, 2), (1, 3)])):
            nm = rng.choice(syms) if rng.random() < 0.75 else rng.randrange(NN)
            if nm in used:
                continue
            used.add(nm)
            r = resolve(refs, nm)
            rv = r[1] if r else -1
            action = pick_weighted(rng, [(4, "create"), (3, "update"), (2, "delete"), (2, "stale")])
            new = rng.choice(avail)
            if action == "create":
                old = -1
            elif action == "update":
                old = rv if rv != -1 else rng.randrange(NO)
            elif action == "delete":
                old, new = (rv if rv != -1 else rng.randrange(NO)), -1
            else:
                old = rng.choice([o for o in range(NO) if o != rv])
                new = new if rng.random() < 0.7 else -1
            cmds.append([nm, old, new])
        if not cmds:
            cmds = [[syms[0], -1, avail[0]]]
        return {"bucket": "symref", "base": pick_weighted(rng, BASES), "names": NAMES, "objs": OBJS, "init": init,
                "report": True, "cmds": cmds, "pack": pack, "reject": False}

    def gen(self, rng, n, tier):
        cases = self.exhaustive() if tier == "thorough" else []
        buckets = [(4, "consistent"), (3, "stale"), (3, "missing"), (3, "dups"), (4, "mixed"), (1, "noreport"),
                   (1, "reject"), (1, "nopack"), (1, "invalid"), (1, "symbolic"), (5, "symref")]
        for _ in range(n):
            b = pick_weighted(rng, buckets)
            if b == "symref":
                cases.append(self.symref_case(rng))
                continue
            base = pick_weighted(rng, BASES)
            init = []
            for nm in range(NN):
                if rng.random() < 0.6:
                    v = ["h", rng.randrange(NO)]
                    if b == "symbolic" and rng.random() < 0.5:
                        v = ["s", rng.randrange(NN)]
                    init.append(["setref", nm, v])
            have = [o for o in range(NO) if rng.random() < 0.5]
            init += [["setobj", o] for o in have]
            rng.shuffle(init)
            refs, objs = sim_init(init)
            pack = sorted(set(rng.randrange(NO) for _ in range(rng.randrange(0, 3))))
            avail = sorted(objs | set(pack)) or [0]
            k = pick_weighted(rng, [(4, 1), (3, 2), (2, 3), (1, 4)])
            cmds = []
            for j in range(k):
                nm = rng.randrange(NN)
                if b == "dups" and cmds and rng.random() < 0.7:
                    nm = rng.choice(cmds)[0]
                # the value a well-behaved client would send as old: the resolved value of the name
                r = resolve(refs, nm)
                good_old = r[1] if r else rng.randrange(NO)
                direct = refs.get(nm) is None or refs[nm][0] == "h"
                kind = b if b != "mixed" else pick_weighted(rng, [(3, "consistent"), (2, "stale"), (2, "missing"), (1, "dups")])
                # the new value: delete, an available object, or (missing) an object that is nowhere
                if good_old != -1 and rng.random() < 0.3:
                    new = -1
                elif kind == "missing" and rng.random() < 0.7:
                    absent = [o for o in range(NO) if o not in avail] + DANGLING
                    new = rng.choice(absent)
                else:
                    new = rng.choice(avail)
                old = good_old
                if kind == "stale" and rng.random() < 0.8:
                    old = rng.choice([o for o in list(range(NO)) + [-1] + DANGLING[:1] if o != good_old])
                if b == "symbolic" and not direct and rng.random() < 0.4:
                    old = -1            # a create against an existing symbolic reference
                if old == -1 and new == -1:
                    if b == "invalid" and rng.random() < 0.6:
                        pass
                    else:
                        new = rng.choice(avail)
                cmds.append([nm, old, new])
                # what a correct server (go-git: direct references only) would hold afterwards
                if direct and old == good_old and (new == -1 or new in avail):
                    if new == -1:
                        refs.pop(nm, None)
                    else:
                        refs[nm] = ("h", new)
            if b == "invalid" and all(not (c[1] == -1 and c[2] == -1) for c in cmds):
                cmds[rng.randrange(len(cmds))][1:] = [-1, -1]
            case = {"bucket": b, "base": base, "names": NAMES, "objs": OBJS, "init": init, "report": b != "noreport",
                    "cmds": cmds, "pack": pack, "reject": b == "reject"}
            if b == "nopack" or (b == "mixed" and rng.random() < 0.05):
                case["pack"] = None
            cases.append(case)
        return cases

    def model_expr(self, c):
        def o(k):
            return "None" if k < 0 else "(Some %d)" % k
        cmds = "[" + "; ".join("mkCmd %d %s %s" % (n, o(a), o(b)) for n, a, b in c["cmds"]) + "]"
        pack = "None" if c["pack"] is None else "(Some [" + "; ".join(str(k) for k in c["pack"]) + "])"
        return "(c39_run %s %s %s %s %s %s)%%N" % (coq_universe(c["objs"]), coq_ops(c["init"]), coq_bool(c["report"]), cmds, pack, coq_bool(c["reject"]))

    def nontrivial(self, c):
        return len(c["cmds"]) > 0

    # ------------------------------------------------------------ the property on the implementation
    def replay(self, c, mask, final_objs):
        """apply the commands the server says it applied; -> (violation or None, resulting refs)"""
        refs, _ = sim_init(c["init"])
        for (nm, old, new), applied in zip(c["cmds"], mask):
            if not applied:
                continue
            # the current value in git's sense: through symbolic references; the update goes to the referent
            r = resolve(refs, nm)
            if r is None or r[1] != old:
                return ("stale-old", "command %r applied while the reference held %r (resolved: %r)" % (
                    [nm, old, new], refs.get(nm), r)), None
            if new != -1 and new not in final_objs:
                return ("missing-new", "command %r applied but object %d is not in the repository" % ([nm, old, new], new)), None
            if new == -1:
                refs.pop(r[0], None)
            else:
                refs[r[0]] = ("h", new)
        return None, refs

    def check(self, c, got):
        result, report, post, refs_o, objs_o = got
        if not (isinstance(refs_o, list) and refs_o and refs_o[0] == "ok" and isinstance(objs_o, list) and objs_o[0] == "ok"):
            return ("store-unreadable", "final store cannot be listed")
        final_refs = {int(e[0]): (e[1][0], int(e[1][1])) for e in refs_o[1:]}
        final_objs = set(int(x) for x in objs_o[1:])
        cmds = c["cmds"]
        if isinstance(report, list):
            ents = [(int(e[0]), e[1] == "ok") for e in report[1:]]
            # the unpack line is not a per-reference outcome (go-git puts the first command error there):
            # a report without any command status claims that nothing was applied
            if report[0] != "unpack_ok" and not ents:
                mask = [False] * len(cmds)
            else:
                per = {}
                for n, ok in ents:
                    per.setdefault(n, []).append(ok)
                want = {}
                for nm, _, _ in cmds:
                    want[nm] = want.get(nm, 0) + 1
                for nm in sorted(set(want) | set(per)):
                    if len(per.get(nm, [])) != want.get(nm, 0):
                        return ("report-count", "%d statuses for name %d, %d commands" % (len(per.get(nm, [])), nm, want.get(nm, 0)))
                pos = {nm: 0 for nm in per}
                mask = []
                for nm, _, _ in cmds:
                    mask.append(per[nm][pos[nm]])
                    pos[nm] += 1
            v, refs = self.replay(c, mask, final_objs)
            if v:
                return v
            if refs != final_refs:
                return ("final-mismatch", "references %r differ from the reported outcomes applied to the initial state %r" % (final_refs, refs))
            if isinstance(post, list):
                want_post = [[str(nm), "zero" if o < 0 else str(o), "zero" if n < 0 else str(n)] for (nm, o, n), a in zip(cmds, mask) if a]
                if post != want_post:
                    return ("post-mismatch", "PostReceive saw %r, applied were %r" % (post, want_post))
            return None
        # no report: some consistent subset of the commands must explain the final references
        init_refs, _ = sim_init(c["init"])
        first = None
        for mask in itertools.product([False, True], repeat=len(cmds)):
            v, refs = self.replay(c, mask, final_objs)
            if v is None and refs == final_refs:
                return None
            if v is not None and first is None and refs is None:
                first = v
        return ("unexplained", "no consistent subset of the commands yields the final references %r" % (final_refs,))

    def oracle(self, ctx, cases, impl, model):
        fails = {}
        self._kind = {}
        for c in cases:
            r = impl.get(c["id"])
            if r is None:
                fails[c["id"]] = "no reply from the implementation"
                continue
            if r.get("panic"):
                continue
            try:
                got = parse_out(r["out"])
                v = self.check(c, got)
            except Exception as e:
                fails[c["id"]] = "unparsable observable %s: %r" % (r["out"][:200], e)
                continue
            if v:
                fails[c["id"]] = "%s: %s" % v
                self._kind[c["id"]] = (v[0], model.get(c["id"]) == r["out"])
        return fails

    def finding_class(self, case, reason, reply):
        k = getattr(self, "_kind", {}).get(case["id"])
        if not k or not k[1]:
            return None
        kind = k[0]
        names = [c[0] for c in case["cmds"]]
        if kind == "stale-old":
            return "stale-old-applied"
        if kind == "missing-new":
            return "missing-new-applied"
        if kind in ("report-count", "post-mismatch") and len(set(names)) < len(names):
            return "duplicate-names-collapse"
        return None

    # ------------------------------------------------------------ C-git: the rule against git receive-pack
    def cgit(self, ctx, n):
        """the rule the oracle and Proofs/C39.git_apply use (apply a command iff its old value is the RESOLVED current
        value and its new object is present; the update goes to the referent) against `git receive-pack --stateless-rpc`
        on real repositories: commits c0, c1 (child of c0) in the repository, c2 only in the pushed pack (or nowhere),
        names refs/heads/a, refs/heads/b and, in half of the repositories, a symbolic refs/heads/alias -> a | b | a
        branch that does not exist"""
        env = dict(os.environ, GIT_AUTHOR_NAME="a", GIT_AUTHOR_EMAIL="a@b", GIT_COMMITTER_NAME="a", GIT_COMMITTER_EMAIL="a@b",
                   GIT_AUTHOR_DATE="1700000000 +0000", GIT_COMMITTER_DATE="1700000000 +0000", GIT_CONFIG_NOSYSTEM="1", HOME=ctx.tmp)

        def git(args, cwd, inp=None):
            p = subprocess.run(["git"] + args, cwd=cwd, input=inp, stdout=subprocess.PIPE, stderr=subprocess.PIPE, env=env, timeout=60)
            if p.returncode != 0:
                raise RuntimeError("git %s: %s" % (args, p.stderr[:200]))
            return p.stdout
        src = os.path.join(ctx.tmp, "cgit-src.git")
        tmpl = os.path.join(ctx.tmp, "cgit-tmpl.git")
        git(["init", "-q", "--bare", src], ctx.tmp)
        tree = git(["hash-object", "-t", "tree", "-w", "--stdin"], src, b"").decode().strip()
        c0 = git(["commit-tree", "-m", "c0", tree], src).decode().strip()
        c1 = git(["commit-tree", "-m", "c1", "-p", c0, tree], src).decode().strip()
        c2 = git(["commit-tree", "-m", "c2", tree], src).decode().strip()
        pack_c2 = git(["pack-objects", "--stdout", "-q"], src, (c2 + "\n").encode())
        body = b"PACK" + struct.pack(">II", 2, 0)
        pack_empty = body + hashlib.sha1(body).digest()
        git(["init", "-q", "--bare", tmpl], ctx.tmp)
        for o in (tree, c0, c1):
            d = os.path.join(tmpl, "objects", o[:2])
            os.makedirs(d, exist_ok=True)
            shutil.copy(os.path.join(src, "objects", o[:2], o[2:]), os.path.join(d, o[2:]))
        ids = {0: c0, 1: c1, 2: c2, 3: "dead" * 10, -1: "0" * 40}
        names = ["refs/heads/a", "refs/heads/b", "refs/heads/alias", "refs/heads/nope"]
        ALIAS, NOPE = 2, 3
        rng = random.Random(ctx.seed + 39)
        ran = mism = 0
        for k in range(n):
            st = {nm: rng.choice([None, 0, 1]) for nm in (0, 1)}
            refs = {nm: ("h", v) for nm, v in st.items() if v is not None}
            # half of the repositories have a symbolic branch: alias -> a | b | a branch that does not exist
            if rng.random() < 0.5:
                refs[ALIAS] = ("s", rng.choice([0, 1, NOPE]))
            st0 = dict(refs)
            with_c2 = rng.random() < 0.6
            present = {0, 1} | ({2} if with_c2 else set())
            cmds, busy = [], set()
            cand = [0, 1] + ([ALIAS, ALIAS] if ALIAS in refs else [])
            for nm in rng.sample(cand, rng.choice([1, 2])):
                r = resolve(refs, nm)
                if nm in busy or r[0] in busy:      # never the alias and its referent in one push
                    continue
                busy.update({nm, r[0]})
                cur = r[1]
                old = cur if rng.random() < 0.6 else rng.choice([-1, 0, 1, 2])
                new = rng.choice([-1, 0, 1, 2, 2, 3])
                if old == -1 and new == -1:
                    new = 0
                if new == -1 and old not in (0, 1):
                    # git lets a delete through when it does not have the old object at all ("deleting a
                    # non-existent ref" / "allowing deletion of corrupt ref"): outside the compared region
                    old = 0
                cmds.append((nm, old, new))
            # the rule: compare old with the resolved value, update the referent
            want = {}
            for nm, old, new in cmds:
                tgt, cur = resolve(refs, nm)
                ok = cur == old and (new == -1 or new in present)
                want[nm] = ok
                if ok:
                    if new == -1:
                        refs.pop(tgt, None)
                    else:
                        refs[tgt] = ("h", new)
            # git
            repo = os.path.join(ctx.tmp, "cgit-%d.git" % k)
            shutil.copytree(tmpl, repo)
            os.makedirs(os.path.join(repo, "refs", "heads"), exist_ok=True)
            for nm, v in st0.items():
                open(os.path.join(repo, names[nm]), "w").write((ids[v[1]] if v[0] == "h" else "ref: " + names[v[1]]) + "\n")
            req = b""
            for i, (nm, old, new) in enumerate(cmds):
                line = ("%s %s %s" % (ids[old], ids[new], names[nm])).encode() + (b"\0report-status" if i == 0 else b"")
                req += b"%04x" % (len(line) + 4) + line
            req += b"0000"
            if any(new != -1 for _, _, new in cmds):
                req += pack_c2 if with_c2 else pack_empty
            p = subprocess.run(["git", "receive-pack", "--stateless-rpc", repo], input=req, stdout=subprocess.PIPE,
                               stderr=subprocess.PIPE, env=env, timeout=60)
            got, out = {}, p.stdout
            while len(out) >= 4:
                ln = int(out[:4], 16)
                if ln == 0:
                    break
                f = out[4:ln].decode("utf-8", "replace").strip().split(" ")
                out = out[ln:]
                if f[0] in ("ok", "ng") and f[1] in names:
                    got[names.index(f[1])] = f[0] == "ok"
            gitrefs = {}
            for nm in range(len(names)):
                fp = os.path.join(repo, names[nm])
                if os.path.exists(fp):
                    h = open(fp).read().strip()
                    if h.startswith("ref: "):
                        gitrefs[nm] = ("s", names.index(h[5:]))
                    else:
                        gitrefs[nm] = ("h", [x for x, y in ids.items() if y == h][0])
            shutil.rmtree(repo, ignore_errors=True)
            ran += 1
            if got != want or gitrefs != refs:
                mism += 1
                ctx.notes.append("spec_mismatch (rule vs git receive-pack): state %r pack_has_c2=%r cmds %r: rule %r refs %r, git %r refs %r" %
                                 (st0, with_c2, cmds, want, refs, got, gitrefs))
        return ran, mism

    def extra(self, ctx, cases, impl, model):
        acts = {"create": 0, "update": 0, "delete": 0, "invalid": 0}
        for c in cases:
            for _, o, n in c["cmds"]:
                acts["invalid" if o < 0 and n < 0 else "create" if o < 0 else "delete" if n < 0 else "update"] += 1
        ev = {"commands_by_action": acts}
        try:
            ran, mism = self.cgit(ctx, 15 if ctx.tier == "quick" else 120)
            ev.update({"rule_vs_git_receive_pack_cases": ran, "spec_mismatches": mism})
        except Exception as e:
            ctx.notes.append("C-git suite could not run: %r" % (e,))
            ev.update({"rule_vs_git_receive_pack_cases": 0, "spec_mismatches": 0})
        return ev


SUITES = [Main()]
