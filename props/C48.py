"""C48 Configuration files mean the same to go-git and git (DESIGN.md §4.C48)."""
import os
import subprocess
from vf.core import Suite, coq_list
from vf.gen import rbytes, rlen, pick_weighted, all_strings

ID = "C48"
THEOREMS = ["C48_git_reads_ours", "C48_git_reads_ours_unguarded_refuted", "C48_git_reads_ours_nonvacuous",
            "C48_bool_eq_true_refuted", "C48_bool_eq_true_partial", "C48_bool_eq_true_sound",
            "C48_bool_ne_false_refuted", "C48_bool_ne_false_partial",
            "C48_bool_fold_true_refuted", "C48_bool_fold_true_partial",
            "C48_bool_parsebool_refuted", "C48_bool_parsebool_partial",
            "C48_bool_configbool_refuted", "C48_bool_configbool_partial", "C48_bool_configbool_partial_num",
            "C48_bool_valueless_refuted",
            "C48_int_window_refuted", "C48_int_window_partial",
            "C48_set_then_get", "C48_set_get_all", "C48_set_preserves_others", "C48_remove_all_spellings", "C48_add_then_get"]
MODEL_FILES = ["ConfigEnc.v", "ConfigOpts.v"]
MODELLED = ("plumbing/format/config/encoder.go: Encoder.Encode/encodeSection/encodeSubsection/encodeOptions with "
            "valueReplacer, subsectionReplacer and the quoting trigger (Model/ConfigEnc.v encode, after the repair that adds CR "
            "to the trigger set); config/config.go + optbool.go boolean / numeric readers (== \"true\", == \"false\" / != \"false\", "
            "strings.EqualFold true, strconv.ParseBool, parseConfigBool incl. strconv.Atoi, strconv.ParseUint(_,10,32) for pack.window) "
            "and decoder.go's dropping of the valueless-key flag; spec: git 2.39.5 config.c reader as a byte state machine and "
            "git_parse_maybe_bool / git_parse_int (Spec/GitConfig.v). NOT modelled, only exercised: the decoder (external "
            "github.com/go-git/gcfg/v2 scanner) — tied to git by correspondence with `git config --list --null` in both directions; "
            "config.Config Marshal/Unmarshal field mapping (remotes, branches, submodules, url rewrites) — exercised by the marshal and rmw suites; "
            "plumbing/format/config/option.go IsKey, Get, GetAll, Has, withoutOption, withAddedOption, withSettedOption — the operations behind "
            "Section/Subsection SetOption, AddOption, RemoveOption (Model/ConfigOpts.v; strings.EqualFold modelled for ASCII keys)")
TRUSTED = [
    "C-impl (opts): Subsection/Section SetOption, AddOption, RemoveOption, Option, OptionAll vs Model/ConfigOpts on every opts case; the direct oracle checks the set-then-get contract on the implementation",
    "rmw: Config.Unmarshal -> field changes -> Config.Marshal on generated git-acceptable files with mixed-case section / key spellings; `git config --file f --list --null` of the rewritten file and go-git's own re-read vs the expected abstract config (managed keys: exactly the new or carried-over values, as a set; every other key as git read it in the original, order included)",
    "C-impl: format/config Encoder bytes vs Model/ConfigEnc.encode on every encode case; config.Config.Unmarshal field values vs the reader models on every interp case",
    "C-git: Spec/GitConfig.git_config_parse vs `git config --file f --list --null` on every decode/encode file (NUL-free), git_bool/git_int vs `git config --type=bool/int` on the interp strings; disagreements counted as spec_mismatches",
    "the gcfg decoder is not modelled: go-git Decode vs git --list is a differential test only (suites decode, encode read-back, marshal read-back)",
    "git is asked one file per process, or (process start-up is slow) 16 files per process concatenated with marker sections: only for texts that start with a section header and end at top level (everything the encoder emits; decode files S accepts), a batched answer is used only if it splits exactly at the markers, and every failing encode/marshal case and every decode segment that differs from S's prediction is re-read alone",
    "in the thorough tier at most 700 files that S rejects are put to git per run (the rest are counted as files_not_put_to_git and yield no requirement)",
    "S is a transcription from memory of git 2.39's config.c / parse.c, trusted only as far as C-git exercises it; S answers `nul` on input containing a NUL byte (C strings)",
]
ASSUMPTIONS = ["strings.NewReplacer with single-byte patterns is a per-byte map (Go stdlib byte replacer)",
               "strings.ToLower / EqualFold reduce to ASCII folding for the words compared (true/yes/on/false/no/off)",
               "git 2.39.5 /usr/bin/git is the reference; include.path is not followed with --file (git default)"]
RULE = ("encode: generated format.Config values (1-4 sections, options and subsections, values from buckets {plain, blanks, "
        "specials #;\"\\, control \\t\\n\\b, CR, empty, utf8, invalid utf8, NUL, random}); decode: generated config files from a "
        "line grammar (headers in three forms, quoting, escapes, continuations, comments, valueless keys, CRLF, BOM) plus a mutated "
        "malformed stream; interp: reader kind x string from a pool of boolean / integer spellings plus random strings; marshal: "
        "generated config.Config values; opts: option lists with mixed-case spellings of a few keys, some AddOption calls then one SetOption / "
        "RemoveOption; rmw: config files for every go-git-managed key (core, user, pack, init, remote, branch, url) in random letter case, stale "
        "duplicates, split sections, unmanaged keys, plus a random set of field changes; non-trivial = contains a byte outside [A-Za-z0-9] in a value/subsection (encode), file "
        "accepted by git with at least one entry (decode), any (interp, marshal); distinct by content")

GIT_ENV = dict(os.environ, GIT_CONFIG_NOSYSTEM="1", HOME="/nonexistent", LC_ALL="C", GIT_CONFIG_GLOBAL="/dev/null")


# ------------------------------------------------------------------ git side

def parse_list(out):
    res = []
    for rec in out.split(b"\0")[:-1]:
        if b"\n" in rec:
            n, v = rec.split(b"\n", 1)
            res.append((n, v))
        else:
            res.append((rec, None))
    return res


def git_batch(d, jobs):
    """jobs: {key: (path, extra git-config args)} -> {key: (rc, stdout bytes)}.
    All git processes are started from four small /bin/sh scripts (spawning from the big python process is slow)."""
    keys = list(jobs)
    procs = []
    for w in range(8):
        part = keys[w::8]
        if not part:
            continue
        sp = os.path.join(d, "run%d.sh" % w)
        with open(sp, "w") as f:
            for k in part:
                path, args = jobs[k]
                f.write("/usr/bin/git config --file '%s' %s >'%s.out' 2>/dev/null; echo $? >'%s.rc'\n" % (path, args, path, path))
        procs.append(subprocess.Popen(["/bin/sh", sp], env=GIT_ENV, cwd=d, stdout=subprocess.DEVNULL, stderr=subprocess.DEVNULL))
    for p in procs:
        p.wait(timeout=6000)
    res = {}
    for k in keys:
        path = jobs[k][0]
        try:
            rc = int(open(path + ".rc").read().strip() or "1")
            out = open(path + ".out", "rb").read()
        except (OSError, ValueError):
            rc, out = 1, b""
        res[k] = (rc, out)
    return res


def git_list_many(ctx, blobs, tag):
    """blobs: {id: bytes} -> {id: [(name, value|None)] or None if git rejects the file}"""
    d = os.path.join(ctx.tmp, tag)
    os.makedirs(d, exist_ok=True)
    jobs = {}
    for i, b in blobs.items():
        p = os.path.join(d, "f%s" % i)
        with open(p, "wb") as f:
            f.write(b)
        jobs[i] = (p, "--list --null")
    return {i: (parse_list(out) if rc == 0 else None) for i, (rc, out) in git_batch(d, jobs).items()}


SEP = b"[zzsep]\n\tn = %d\n"


def git_list_concat(ctx, blobs, tag, solo=(), eligible=None):
    """like git_list_many, but 16 files per git process: the texts are concatenated with a marker section after each
    (git starts slowly on a busy machine).  Sound only for texts that start with a section header and end at top level
    — true of everything the encoder emits; anything else makes the group fall back to one process per file, and
    the callers re-check every failing case alone."""
    if eligible is not None:
        ids = [i for i in blobs if i in eligible]
    else:
        ids = [i for i in blobs if i not in solo and b"\0" not in blobs[i] and (blobs[i] == b"" or (blobs[i][:1] == b"[" and blobs[i][-1:] == b"\n"))]
    res = {}
    groups = [ids[k:k + 16] for k in range(0, len(ids), 16)]
    big = git_list_many(ctx, {n: b"".join(blobs[i] + SEP % i for i in g) for n, g in enumerate(groups)}, tag + "-cat")
    for n, g in enumerate(groups):
        ents = big[n]
        parts, cur, ok = {}, [], ents is not None
        if ok:
            k = 0
            for name, v in ents:
                if name == b"zzsep.n":
                    if k < len(g) and v == str(g[k]).encode():
                        parts[g[k]] = cur
                        cur, k = [], k + 1
                    else:
                        ok = False
                        break
                else:
                    cur.append((name, v))
            ok = ok and k == len(g) and not cur
        if ok:
            res.update(parts)
    rest = {i: blobs[i] for i in blobs if i not in res and (eligible is None or i in eligible or i in solo)}
    res.update(git_list_many(ctx, rest, tag))
    return res


def group(entries):
    """ordered (name, value) list -> {name: [values]}"""
    g = {}
    for n, v in entries:
        g.setdefault(n, []).append(v)
    return g


def full_name(sec, has_sub, sub, key):
    return sec.lower() + b"." + ((sub + b".") if has_sub else b"") + key.lower()


def flat_impl(entries):
    """harness `flat` output -> [(full name, value)]"""
    return [(full_name(bytes.fromhex(s), hs, bytes.fromhex(ss), bytes.fromhex(k)), bytes.fromhex(v)) for s, hs, ss, k, v in entries]


def show_group(g, limit=4):
    return "{" + ", ".join("%r: %r" % (k, v) for k, v in sorted(g.items())[:limit]) + ("..." if len(g) > limit else "") + "}"


def is_utf8(b):
    try:
        b.decode("utf-8")
        return True
    except UnicodeDecodeError:
        return False


def sec_ok(n):
    return len(n) > 0 and all(chr(c).isalnum() and c < 128 or c == 45 for c in n)


def key_ok(k):
    return len(k) > 0 and chr(k[0]).isalpha() and k[0] < 128 and all(chr(c).isalnum() and c < 128 or c == 45 for c in k)


def py_quote(v):
    """an always-quoted value git reads back exactly (harness-side writer, independent of go-git's encoder)"""
    m = {0x22: b'\\"', 0x5c: b"\\\\", 0x0a: b"\\n", 0x09: b"\\t", 0x08: b"\\b"}
    return b'"' + b"".join(m.get(c, bytes([c])) for c in v) + b'"'


def reason_join(parts):
    return " || ".join(parts)


# ------------------------------------------------------------------ generators

SECS = [b"core", b"Core", b"CORE", b"remote", b"branch", b"user", b"a", b"a-b", b"x1", b"Pack", b"my-Section9", b"url"]
KEYS = [b"bare", b"Bare", b"url", b"fetch", b"name", b"k", b"key-1", b"a1", b"autoCRLF", b"x-y-z", b"URL", b"v"]
PLAIN = b"abcdefXYZ0189/:.@_-+=*,"


def gen_value(rng, bucket=None):
    b = bucket or pick_weighted(rng, [(4, "plain"), (3, "blanks"), (3, "specials"), (3, "control"), (1, "cr"), (1, "empty"),
                                      (2, "utf8"), (2, "mixed"), (1, "random"), (1, "word")])
    n = rlen(rng, 6, 30)
    if b == "plain":
        return rbytes(rng, max(n, 1), PLAIN)
    if b == "empty":
        return b""
    if b == "blanks":
        return rbytes(rng, n, b"  ab c")
    if b == "specials":
        return rbytes(rng, n, b'#;"\\ab =[]')
    if b == "control":
        return rbytes(rng, n, b"\t\n\x08a b\\\"\x0b\x0c\x01\x7f")
    if b == "cr":
        return rbytes(rng, n, b"\ra \n")
    if b == "utf8":
        return "".join(rng.choice("aé€😀 ñ") for _ in range(n)).encode()
    if b == "badutf8":
        return rbytes(rng, max(n, 1), b"\x80\xff\xc3a\xe2\x82 ")
    if b == "mixed":
        return rbytes(rng, n, b'#;"\\\t\n\x08 ab ') + rng.choice([b"", "é".encode()])
    if b == "word":
        return rng.choice([b"true", b"false", b" x", b"x ", b" ", b"\\", b'"', b"#", b";", b"a#b", b"a;b", b"a\\nb", b"\\\n", b'""', b"a  b", b"\t", b"a\tb", b"\n", b"\x08"])
    if b == "nul":
        return rbytes(rng, max(n, 1), b"a\x00b")
    return bytes(rng.randrange(1, 128) for _ in range(n))


def gen_subname(rng, bucket=None):
    b = bucket or pick_weighted(rng, [(4, "plain"), (3, "specials"), (2, "blanks"), (2, "utf8"), (1, "cr"), (1, "dots"), (1, "random")])
    n = rlen(rng, 5, 20)
    if b == "plain":
        return rbytes(rng, max(n, 1), b"originORIGIN/main-1_")
    if b == "specials":
        return rbytes(rng, max(n, 1), b'"\\a]b[#;=')
    if b == "blanks":
        return rbytes(rng, max(n, 1), b" \ta b")
    if b == "utf8":
        return "".join(rng.choice("aé€😀 ñB") for _ in range(max(n, 1))).encode()
    if b == "badutf8":
        return rbytes(rng, max(n, 1), b"\x80\xffa\xc3")
    if b == "cr":
        return rbytes(rng, max(n, 1), b"\rab")
    if b == "dots":
        return rbytes(rng, max(n, 1), b".aB.")
    if b == "newline":
        return rbytes(rng, max(n, 1), b"a\nb")
    if b == "nul":
        return rbytes(rng, max(n, 1), b"a\x00")
    if b == "empty":
        return b""
    return bytes(rng.choice([c for c in range(1, 128) if c != 10]) for _ in range(max(n, 1)))


def coq_chunks(h):
    """hex text -> Coq `list string` of short literals (a long string literal costs quadratic parse time in Coq 8.16)"""
    if isinstance(h, bytes):
        h = h.hex()
    return coq_clist(['"%s"' % h[i:i + 16] for i in range(0, len(h), 16)], 1)


def coq_clist(items, level):
    """explicit cons/nil term (C1/N1 string, C2/N2 list string, C3/N3 list (list string)): list notations elaborate slowly when nested"""
    t = "N%d" % level
    for x in reversed(items):
        t = "(C%d %s %s)" % (level, x, t)
    return t


class Encode(Suite):
    name = "encode"
    go_cmd = "c48"
    coq_imports = "From GoGit Require Import Model.ConfigEnc."
    quick_n = 200
    thorough_n = 1500
    coq_chunk = 110

    def gen_opts(self, rng, vb=None):
        return [[rng.choice(KEYS).hex(), gen_value(rng, vb).hex()] for _ in range(pick_weighted(rng, [(2, 0), (3, 1), (3, 2), (2, 3), (1, 5)]))]

    def gen(self, rng, n, tier):
        cases = []
        for _ in range(n):
            bucket = pick_weighted(rng, [(14, "structured"), (1, "nul"), (1, "sub-newline"), (1, "bad-names"), (1, "sub-empty"), (1, "badutf8")])
            secs = []
            for _ in range(pick_weighted(rng, [(3, 1), (3, 2), (2, 3), (1, 4)])):
                name = rng.choice(SECS)
                if rng.random() < 0.15:
                    name = rbytes(rng, 1, b"abXY") + rbytes(rng, rng.randrange(0, 8), b"abXY09-")
                if bucket == "bad-names" and rng.random() < 0.5:
                    name = rng.choice([b"", b"a b", b"a.b", b"a]", b"a\n", b"\xc3\xa9", b"a_b"])
                opts = self.gen_opts(rng, "plain" if bucket in ("nul", "sub-newline", "sub-empty", "badutf8") else None)
                if bucket == "badutf8" and opts and rng.random() < 0.7:
                    opts[0][1] = gen_value(rng, "badutf8").hex()
                if bucket == "bad-names" and opts and rng.random() < 0.5:
                    opts[0][0] = rng.choice([b"", b"1a", b"a b", b"a_b", b"a=b", b"a.b", b"-a", b"\xc3\xa9"]).hex()
                if bucket == "nul" and opts:
                    opts[0][1] = gen_value(rng, "nul").hex()
                subs = []
                for _ in range(pick_weighted(rng, [(4, 0), (3, 1), (2, 2), (1, 3)])):
                    sb = None
                    if bucket in ("nul", "sub-newline", "sub-empty", "badutf8"):
                        sb = "plain"
                    sn = gen_subname(rng, sb)
                    if bucket == "sub-newline":
                        sn = gen_subname(rng, "newline")
                    if bucket == "sub-empty":
                        sn = b""
                    if bucket == "badutf8" and rng.random() < 0.4:
                        sn = gen_subname(rng, "badutf8")
                    subs.append({"n": sn.hex(), "o": self.gen_opts(rng, "plain" if sb else None)})
                secs.append({"n": name.hex(), "o": opts, "s": subs})
            cases.append({"bucket": bucket, "op": "encode", "secs": secs})
        if tier == "thorough":
            # small-scope exhaustion: every value of length <= 3 over the alphabet where the quoting rule lives
            for v in all_strings(b' a"\\#\t\n\r;', 3):
                cases.append({"bucket": "exhaustive", "op": "encode", "secs": [{"n": b"s".hex(), "o": [[b"k".hex(), v.hex()]], "s": [{"n": v.replace(b"\n", b"n").hex(), "o": [[b"j".hex(), b"1".hex()]]}]}]})
        return cases

    def model_expr(self, c):
        conts = []
        for sec in c["secs"]:
            conts.append(coq_clist(['(C1 "s" N1)', coq_chunks(sec["n"])] + [coq_chunks(x) for kv in sec["o"] for x in kv], 2))
            for ss in sec["s"]:
                conts.append(coq_clist(['(C1 "u" N1)', coq_chunks(ss["n"])] + [coq_chunks(x) for kv in ss["o"] for x in kv], 2))
        return "c48_encode %s" % coq_clist(conts, 3)

    def parts(self, c):
        names, keys, vals, subs = [], [], [], []
        for s in c["secs"]:
            names.append(bytes.fromhex(s["n"]))
            for k, v in s["o"]:
                keys.append(bytes.fromhex(k))
                vals.append(bytes.fromhex(v))
            for ss in s["s"]:
                subs.append(bytes.fromhex(ss["n"]))
                for k, v in ss["o"]:
                    keys.append(bytes.fromhex(k))
                    vals.append(bytes.fromhex(v))
        return names, keys, vals, subs

    def expected(self, c, xf=lambda b: b, xs=lambda b: b):
        ent = []
        for s in c["secs"]:
            sn = bytes.fromhex(s["n"])
            for k, v in s["o"]:
                ent.append((full_name(sn, False, b"", bytes.fromhex(k)), xf(bytes.fromhex(v))))
            for ss in s["s"]:
                for k, v in ss["o"]:
                    ent.append((full_name(sn, True, xs(bytes.fromhex(ss["n"])), bytes.fromhex(k)), xf(bytes.fromhex(v))))
        return group(ent)

    def nontrivial(self, c):
        _, _, vals, subs = self.parts(c)
        return any(not chr(ch).isalnum() for b in vals + subs for ch in b)

    def names_ok(self, c):
        names, keys, _, _ = self.parts(c)
        # a section that emits nothing (no options, no subsections) may have any name
        live = [bytes.fromhex(s["n"]) for s in c["secs"] if s["o"] or s["s"]]
        return all(sec_ok(n) for n in live) and all(key_ok(k) for k in keys)

    def oracle(self, ctx, cases, impl, model):
        """git (and go-git itself) read what go-git wrote back to the original values"""
        fails = {}
        blobs = {}
        for c in cases:
            r = impl.get(c["id"])
            if r is None or not r["out"].startswith("x"):
                fails[c["id"]] = "no encoding produced"
                continue
            if self.names_ok(c):
                blobs[c["id"]] = bytes.fromhex(r["out"][1:])
        solo = {c["id"] for c in cases if any(b"\n" in b for b in self.parts(c)[3])}
        got = git_list_concat(ctx, blobs, "enc", solo)
        suspects = {c["id"]: blobs[c["id"]] for c in cases if c["id"] in blobs and (got[c["id"]] is None or group(got[c["id"]]) != self.expected(c))}
        got.update(git_list_many(ctx, suspects, "enc-solo"))      # a failing case is always re-read alone
        self.git_seen = got
        for c in cases:
            i = c["id"]
            if i not in blobs:
                continue
            want = self.expected(c)
            why = []
            g = got[i]
            if g is None:
                why.append("git: rejects the file go-git wrote")
            elif group(g) != want:
                why.append("git: reads %s, written %s" % (show_group(group(g)), show_group(want)))
            ex = impl[i].get("extra") or {}
            if "readback" in ex:
                rb = group(flat_impl(ex["readback"]))
                if rb != want:
                    if rb == self.expected(c, lambda b: b.replace(b"\r", b"")):
                        why.append("readback-cr: go-git reads its own output back without the CRs")
                    else:
                        why.append("readback: go-git reads %s, written %s" % (show_group(rb), show_group(want)))
            else:
                why.append("readback-err: go-git cannot decode its own output: %s" % ex.get("readback_err", "?")[:80])
            if why:
                agrees = model.get(i) is not None and model.get(i) == impl[i]["out"]
                fails[i] = reason_join(why) + (" [model-agrees]" if agrees else " [model-differs]")
        return fails

    def finding_class(self, c, reason, reply):
        if "[model-agrees]" not in reason:
            return None
        _, _, vals, subs = self.parts(c)
        allb = vals + subs
        has_nul = any(0 in b for b in allb)
        sub_nl = any(10 in b for b in subs)
        bad8 = any(not is_utf8(b) for b in allb)
        sub_empty = any(ss["n"] == "" and ss["o"] for s in c["secs"] for ss in s["s"])
        classes = []
        for part in reason.replace(" [model-agrees]", "").split(" || "):
            if part.startswith("git:"):
                classes.append("enc-nul" if has_nul else "enc-subsection-newline" if sub_nl else None)
            elif part.startswith("readback-cr:"):
                classes.append("enc-readback-cr")
            elif part.startswith("readback-err:"):
                classes.append("enc-nul" if has_nul else "enc-subsection-newline" if sub_nl else "enc-readback-invalid-utf8" if bad8 else None)
            elif part.startswith("readback:"):
                classes.append("enc-readback-empty-subsection" if sub_empty else "enc-subsection-newline" if sub_nl else None)
            else:
                classes.append(None)
        if not classes or any(k is None for k in classes):
            return None
        return classes[0]

    def extra(self, ctx, cases, impl, model):
        # C-git: S on the bytes go-git wrote vs the git binary
        ids = [c["id"] for c in cases if c["id"] in getattr(self, "git_seen", {})][:(140 if ctx.tier == "quick" else 100000)]
        return spec_vs_git(ctx, {i: bytes.fromhex(impl[i]["out"][1:]) for i in ids}, {i: self.git_seen[i] for i in ids}, "encode")


def render_entries(entries):
    if entries is None:
        return "( err syntax )"
    return "( ok" + "".join(" ( x%s %s )" % (n.hex(), "none" if v is None else "( some x%s )" % v.hex()) for n, v in entries) + " )"


def spec_vs_git(ctx, blobs, git, tag):
    ids = [i for i in blobs if 0 not in blobs[i]]
    outs = ctx.coq_eval("From GoGit Require Import Model.ConfigEnc Spec.GitConfig.", ['c48_spec_parse %s' % coq_chunks(blobs[i]) for i in ids], chunk=140)
    bad = 0
    for i, o in zip(ids, outs):
        want = render_entries(git[i])
        if o != want:
            bad += 1
            if bad <= 3:
                ctx.notes.append("spec_mismatch (%s) git_config_parse vs git on %s: S=%s git=%s" % (tag, blobs[i].hex()[:400], str(o)[:300], want[:300]))
    return {"spec_vs_git_cases": len(ids), "spec_mismatches": bad}


# ------------------------------------------------------------------ decode

WORDS = [b"true", b"false", b"yes", b"1", b"origin", b"https://example.com/a.git", b"+refs/heads/*:refs/remotes/origin/*",
         b"refs/heads/main", b"a b", b"x", b"Jane Doe", b"jane@example.com", b"/usr/bin/x", b"C:\\\\dir", b"100k"]


def gen_file_value(rng):
    """text after '=' (without the newline), git-valid most of the time"""
    k = pick_weighted(rng, [(6, "word"), (3, "quoted"), (2, "partial"), (2, "escapes"), (0.8, "cont"), (2, "comment"), (1.5, "innerws"),
                            (1, "empty"), (1, "utf8"), (0.3, "badesc"), (0.3, "open"), (1, "trail"), (0.5, "cr"), (0.3, "badutf8"), (0.4, "qcont"), (1, "hashq")])
    w = rng.choice(WORDS)
    if k == "word":
        return w
    if k == "quoted":
        return b'"' + rng.choice([w, b" " + w + b" ", w + b" # no comment", b"a;b", b"", b"  "]) + b'"'
    if k == "partial":
        return rng.choice([b'a"b c"d', b'"a" "b"', b'x "  y  " z', b'""x""', b'a""', b'"a"b', b'pre" ; "post', b'"" x', b'""\tx y'])
    if k == "escapes":
        return rng.choice([b'a\\tb', b'"a\\nb"', b'a\\\\b', b'\\"q\\"', b'"x\\bz"', b'\\n', b'"\\t\\t"', b'a\\"b', b'\\\\', b'"a\\\\"'])
    if k == "cont":
        return rng.choice([b"a\\\nb", b"a \\\n  b", b"a\\\n", b"\\\nb", b"a\\\n\\\nb", b"a \\\n b \\\n c", b"a\\\r\nb", b"x\\\n# not a comment line"])
    if k == "qcont":
        return rng.choice([b'"a\\\nb"', b'"a \\\n b"', b'"\\\n"'])
    if k == "comment":
        return w + rng.choice([b" # c", b" ; c", b"#c", b";c", b"\t# c \"", b" #"])
    if k == "hashq":
        return rng.choice([b'"a#b"', b'"a;b" ; c', b'a"#"b', b'"#"'])
    if k == "innerws":
        return rng.choice([b"a  b", b"a\tb", b"a \t b", b"a\t\tb   c", b"a b\t", b"\ta b", b"a\x0bb", b"a\x0cb"])
    if k == "empty":
        return rng.choice([b"", b" ", b"\t", b"  # c"])
    if k == "utf8":
        return "é€ 😀 ñ".encode()
    if k == "badesc":
        return rng.choice([b"a\\xb", b"\\ ", b'"\\q"', b"\\r", b"a\\"])
    if k == "open":
        return rng.choice([b'"abc', b'a"b', b'"a\\"'])
    if k == "trail":
        return w + rng.choice([b"  ", b"\t", b" \t "])
    if k == "cr":
        return rng.choice([b"a\rb", b"a\r", b"\ra", b'"a\rb"', b"a \r b"])
    if k == "badutf8":
        return rng.choice([b"a\xffb", b"\x80", b'"\xc3"'])
    return w


def gen_header(rng):
    sec = rng.choice([b"core", b"Core", b"remote", b"branch", b"a-b", b"X1", b"user", b"s"])
    k = pick_weighted(rng, [(7, "plain"), (7, "sub"), (0.4, "dotted"), (0.6, "subesc"), (1, "spacing"), (0.3, "bad"), (0.3, "subempty"), (0.3, "digit")])
    if k == "plain":
        return b"[" + sec + b"]"
    if k == "sub":
        return b"[" + sec + b' "' + rng.choice([b"origin", b"Origin", b"a b", b"a.b", b"main/x", "é".encode(), b"a]b", b"a#b", b"x;y"]) + b'"]'
    if k == "dotted":
        return b"[" + sec + b"." + rng.choice([b"sub", b"Sub", b"a.b"]) + b"]"
    if k == "subesc":
        return b"[" + sec + b' "' + rng.choice([b'a\\"b', b"a\\\\b", b"a\\tb", b"\\x", b"a\\nb"]) + b'"]'
    if k == "spacing":
        return rng.choice([b"[" + sec + b'  "x"]', b"[" + sec + b'\t"x"]', b"[" + sec + b'\t "x"]', b"[" + sec + b'  "x"]', b"[ " + sec + b"]", b"[" + sec + b" ]", b"[" + sec + b' "x" ]'])
    if k == "subempty":
        return b"[" + sec + b' ""]'
    if k == "digit":
        return rng.choice([b"[1a]", b"[-a]", b"[a1-]", b"[9]"])
    return rng.choice([b"[]", b"[" + sec, b"[" + sec + b' "x]', b"[a_b]", b'[a"x"]', b'[a "x\ny"]', b"[a b]", "[é]".encode()])


def gen_file(rng):
    lines = []
    eol = b"\r\n" if rng.random() < 0.12 else b"\n"
    nsec = pick_weighted(rng, [(3, 1), (4, 2), (2, 3), (1, 5)])
    if rng.random() < 0.02:
        lines.append(rng.choice([b"k = v", b"k"]))          # a key before any section
    for _ in range(nsec):
        if rng.random() < 0.3:
            lines.append(rng.choice([b"# comment", b"; comment", b"", b"  ", b"\t# x", b"#[fake]", b"; k = v"]))
        h = gen_header(rng)
        if rng.random() < 0.06:
            h += rng.choice([b" # c", b" ; c", b" # c", b"\t", b" k = v", b" k"])
        lines.append(h)
        for _ in range(pick_weighted(rng, [(1, 0), (3, 1), (3, 2), (2, 4)])):
            key = rng.choice(KEYS)
            form = pick_weighted(rng, [(10, "kv"), (0.8, "valueless"), (1, "comment"), (0.25, "badkey")])
            ind = rng.choice([b"\t", b"", b"  ", b"\t\t"])
            if form == "kv":
                lines.append(ind + key + rng.choice([b" = ", b"=", b" =", b"= ", b"\t=\t", b"  =  "]) + gen_file_value(rng))
            elif form == "valueless":
                lines.append(ind + key + rng.choice([b"", b" ", b" # c", b"\t"]))
            elif form == "comment":
                lines.append(ind + rng.choice([b"# c", b"; k = v"]))
            else:
                lines.append(ind + rng.choice([b"1k = v", b"a_b = v", b"a.b = v", b"k v", b"= v", b"-k = 1", "é = 1".encode(), b"k : v"]))
    body = eol.join(lines)
    if rng.random() < 0.85:
        body += eol
    if rng.random() < 0.02:
        body = b"\xef\xbb\xbf" + body
    return body


def mutate(rng, b):
    b = bytearray(b)
    for _ in range(rng.randrange(1, 4)):
        if not b:
            break
        p = rng.randrange(len(b))
        op = rng.randrange(4)
        if op == 0:
            del b[p]
        elif op == 1:
            b.insert(p, rng.choice(b'"\\[]=#;\n\r\t .-\xc3'))
        elif op == 2:
            b[p] = rng.choice(b'"\\[]=#;\n\r\t aZ0')
        else:
            del b[p:p + rng.randrange(1, 6)]
    return bytes(b)


def file_features(f):
    """input-shape predicates the decode finding classes are keyed on"""
    s = set()
    if b"\\\n" in f or b"\\\r\n" in f:
        s.add("cont")
    if not is_utf8(f):
        s.add("badutf8")
    if b"\t" in f or b"\x0b" in f or b"\x0c" in f or b"  " in f:
        s.add("ws")
    if b"\r" in f.replace(b"\r\n", b"\n"):
        s.add("cr")
    if b"\r" in f:
        s.add("anycr")
    return s


class Decode(Suite):
    name = "decode"
    go_cmd = "c48"
    quick_n = 320
    thorough_n = 2500

    def gen(self, rng, n, tier):
        cases = []
        for _ in range(n):
            f = gen_file(rng)
            bucket = "file"
            if rng.random() < 0.2:
                f = mutate(rng, f)
                bucket = "mutated"
            if b"\0" in f:
                f = f.replace(b"\0", b"0")
            cases.append({"bucket": bucket, "op": "decode", "file": f.hex()})
        if tier == "thorough":
            # small-scope exhaustion of the value grammar: every text of length <= 4 after "k ="
            for v in all_strings(b' a"\\#\tn', 4):
                cases.append({"bucket": "exhaustive", "op": "decode", "file": (b"[s]\nk =" + v + b"\nj = 1\n").hex()})
        return cases

    def nontrivial(self, c):
        return bool(getattr(self, "git_seen", {}).get(c.get("id"))) if "id" in c else True

    def oracle(self, ctx, cases, impl, model):
        """every file git accepts: go-git accepts it and reads the same ordered values per (section, subsection, key)"""
        blobs = {c["id"]: bytes.fromhex(c["file"]) for c in cases}
        # S's reading of every file (also used for C-git in `extra`); it only decides HOW git is asked:
        # files S accepts are read 16 per git process (marker sections in between) when they end at top level and
        # every entry has a section; a segment that differs from S's prediction, everything S rejects and everything
        # else is read by its own git process.  Every answer used below comes from the git binary.
        ids = [c["id"] for c in cases]
        outs = ctx.coq_eval("From GoGit Require Import Model.ConfigEnc Spec.GitConfig.", ['c48_spec_parse %s' % coq_chunks(blobs[i]) for i in ids], chunk=140)
        self.spec_out = dict(zip(ids, outs))
        elig = set()
        for i in ids:
            f, o = blobs[i], self.spec_out[i] or ""
            if o.startswith("( ok") and f.endswith(b"\n") and not f.endswith(b"\\\n") and not f.startswith(b"\xef") and b"\0" not in f \
               and all(b"." in bytes.fromhex(n) for n in __import__("re").findall(r"\( x([0-9a-f]*) ", o)):
                elig.add(i)
        got = git_list_concat(ctx, blobs, "dec", eligible=elig)
        redo = {i: blobs[i] for i in elig if i not in got or render_entries(got[i]) != self.spec_out[i]}
        cap = 100000 if ctx.tier == "quick" else 700          # thorough: the exhaustive bucket is mostly files S rejects
        rejected = [i for i in ids if i not in elig][:cap]
        redo.update({i: blobs[i] for i in rejected})
        got.update(git_list_many(ctx, redo, "dec-solo"))
        self.unasked = [i for i in ids if i not in got]
        for i in self.unasked:
            got[i] = None                                     # not asked: no requirement is derived from these files
        self.git_seen = got
        fails = {}
        for c in cases:
            i = c["id"]
            g = got[i]
            if g is None:
                continue        # git rejects: the property does not constrain go-git
            r = impl.get(i)
            if r is None:
                fails[i] = "no reply"
                continue
            want = group(g)
            ex = r.get("extra") or {}
            if "entries" not in ex:
                fails[i] = "rejects: git accepts the file, go-git Decode fails: %s" % ex.get("err", "?")[:120]
                continue
            have = group(flat_impl(ex["entries"]))
            if have == want:
                continue
            fails[i] = self.diff_kind(have, g) + ": go-git reads %s, git %s" % (show_group(have), show_group(want))
        return fails

    @staticmethod
    def value_kinds(h, w):
        """the smallest set of known gcfg-vs-git value transformations explaining go-git's h against git's w, or None"""
        if w is None:
            return {"valueless"} if h == b"" else None
        if h == w:
            return set()
        import itertools
        tf = [("continuation", lambda v: v.replace(b"\n", b"")),     # go-git keeps a newline where git joins continuation lines
              ("tab-kept", lambda v: v.replace(b"\t", b" ")),         # git turns an unquoted TAB into one space, go-git keeps it
              ("lead-blank", lambda v: v.lstrip(b" \t")),             # blanks right after an empty "" pair: git drops them (value still empty), go-git keeps them
              ("cr", lambda v: v.replace(b"\r", b"").replace(b" ", b""))]  # go-git drops every CR; git keeps a quoted one / blanks an unquoted inner one
        for k in (1, 2, 3):
            for sub in itertools.combinations(tf, k):
                x, y = h, w
                for _, t in sub:
                    x, y = t(x), t(y)
                if x == y:
                    return {n for n, _ in sub}
        return None

    @classmethod
    def diff_kind(cls, have, want_entries):
        """classify HOW the two readings differ: '+'-joined narrow kinds, or 'other'.
        want_entries: git's ordered (name, value) list"""
        import re
        kinds = set()
        want = group(want_entries)
        empty_sub = re.compile(rb"^([a-z0-9-]+)\.\.([a-z][a-z0-9-]*)$")
        if any(empty_sub.match(k) for k in want):
            # [sec ""]: go-git files the keys under the plain section, in file order
            want = group([(empty_sub.sub(rb"\1.\2", n), v) for n, v in want_entries])
            kinds.add("empty-subsection")
        if sorted(have) != sorted(want):
            return "other"
        for k in want:
            if len(have[k]) != len(want[k]):
                return "other"
            for h, w in zip(have[k], want[k]):
                ks = cls.value_kinds(h, w)
                if ks is None:
                    return "other"
                kinds |= ks
        return "+".join(sorted(kinds)) or "other"

    def finding_class(self, c, reason, reply):
        f = bytes.fromhex(c["file"])
        feats = file_features(f)
        kind = reason.split(":", 1)[0]
        if kind == "rejects":
            return self.reject_class(f, reason)
        import re
        need = {"valueless": True, "continuation": "cont" in feats, "tab-kept": b"\t" in f, "cr": "cr" in feats,
                "empty-subsection": b'""]' in f, "lead-blank": bool(re.search(rb'=[ \t]*(?:"")+[ \t]', f))}
        names = {"valueless": "dec-valueless-key", "continuation": "dec-continuation-newline", "tab-kept": "dec-unquoted-tab",
                 "cr": "dec-cr", "empty-subsection": "dec-empty-subsection", "lead-blank": "dec-blanks-after-empty-quotes"}
        ks = kind.split("+")
        if not all(need.get(k) for k in ks):
            return None
        return names[ks[0]]

    @staticmethod
    def reject_class(f, reason):
        """go-git (gcfg) rejects a file git accepts: keyed on gcfg's complaint AND the input shape"""
        import re
        if "illegal UTF-8" in reason and not is_utf8(f):
            return "dec-rejects-invalid-utf8"
        if "illegal byte order mark" in reason or (f.startswith(b"\xef\xbb\xbf") and "illegal character U+FEFF" in reason):
            return "dec-rejects-bom"
        if "unknown escape sequence" in reason and re.search(rb'\[[^\]\n]*"[^\n]*\\[^"\\]', f):
            return "dec-rejects-subsection-escape"
        if "expected EOL, EOF, or comment" in reason and re.search(rb"\][ \t]*[A-Za-z]", f):
            return "dec-rejects-key-after-header"
        if ("expected section name" in reason or "expected right bracket" in reason or "illegal character" in reason) and \
           re.search(rb"\[[A-Za-z0-9.-]*\.[A-Za-z0-9.-]*[\] \t]|\[[0-9-][A-Za-z0-9.-]*[\] \t]", f):
            return "dec-rejects-dotted-or-digit-section"
        if "unknown escape sequence" in reason and re.search(rb"(^|[^\\])(\\\\)*\\$", f):
            return "dec-rejects-backslash-at-eof"
        if "expected section header" in reason and not f.lstrip(b"\xef\xbb\xbf \t\r\n").startswith(b"[") :
            return "dec-rejects-key-before-section"
        return None

    def extra(self, ctx, cases, impl, model):
        asked = [c["id"] for c in cases if c["id"] not in set(self.unasked)]
        bad = 0
        for i in asked:
            want = render_entries(self.git_seen[i])
            if self.spec_out.get(i) != want:
                bad += 1
                if bad <= 3:
                    ctx.notes.append("spec_mismatch (decode) git_config_parse vs git on %s: S=%s git=%s" % (cases[i]["file"][:400], str(self.spec_out.get(i))[:300], want[:300]))
        ev = {"spec_vs_git_cases": len(asked), "spec_mismatches": bad, "files_not_put_to_git": len(self.unasked)}
        ev["git_accepted"] = sum(1 for c in cases if self.git_seen.get(c["id"]) is not None)
        ev["git_accepted_with_entries"] = sum(1 for c in cases if self.git_seen.get(c["id"]))
        return ev


# ------------------------------------------------------------------ interp

KINDS = {  # kind -> (section header, key, reader class, git type)
    "bare": (b"[core]", b"bare", "eqtrue", "bool"), "mirror": (b'[remote "r"]\n\turl = x', b"mirror", "eqtrue", "bool"),
    "promisor": (b'[remote "r"]\n\turl = x', b"promisor", "eqtrue", "bool"),
    "filemode": (b"[core]", b"filemode", "nefalse", "bool"), "readrev": (b"[pack]", b"readReverseIndex", "nefalse", "bool"),
    "writerev": (b"[pack]", b"writeReverseIndex", "nefalse", "bool"),
    "ntfs": (b"[core]", b"protectNTFS", "configbool", "bool"), "hfs": (b"[core]", b"protectHFS", "configbool", "bool"),
    "taggpg": (b"[tag]", b"gpgSign", "parsebool", "bool"), "commitgpg": (b"[commit]", b"gpgSign", "parsebool", "bool"),
    "skiphash": (b"[index]", b"skipHash", "parsebool", "bool"), "allowunreach": (b"[uploadArchive]", b"allowUnreachable", "parsebool", "bool"),
    "wtconfig": (b"[extensions]", b"worktreeConfig", "foldtrue", "bool"),
    "window": (b"[pack]", b"window", "window", "int"),
}
GITKEY = {"bare": "core.bare", "mirror": "remote.r.mirror", "promisor": "remote.r.promisor", "filemode": "core.filemode",
          "readrev": "pack.readreverseindex", "writerev": "pack.writereverseindex", "ntfs": "core.protectntfs", "hfs": "core.protecthfs",
          "taggpg": "tag.gpgsign", "commitgpg": "commit.gpgsign", "skiphash": "index.skiphash", "allowunreach": "uploadarchive.allowunreachable",
          "wtconfig": "extensions.worktreeconfig", "window": "pack.window"}
POOL = [b"true", b"false", b"yes", b"no", b"on", b"off", b"True", b"FALSE", b"TRUE", b"False", b"tRuE", b"Yes", b"ON", b"oFF", b"NO",
        b"", b"1", b"0", b"2", b"-1", b"+1", b"+0", b"-0", b"00", b"010", b"08", b"0x10", b"0X1f", b"0x", b"0xg", b"1k", b"1K", b"1m", b"1M", b"1g", b"2g", b"1G",
        b"3g", b"k", b"-k", b"+k", b"0k", b"t", b"T", b"f", b"F", b"y", b"n", b"tru", b"truee", b"nope", b"2147483647", b"2147483648",
        b"-2147483647", b"-2147483648", b"4294967295", b"4294967296", b"9223372036854775807", b"9223372036854775808",
        b"-9223372036854775808", b"-9223372036854775809", b"99999999999999999999", b" 1", b"1 ", b"1 k", b"\t1", b"1kk", b"1kb", b"10", b"7",
        b"100", b"1_000", b"0b1", b"0o7", "１".encode(), b"1e3", b"1.0", b"- 1", b"--1", b"+-1", b"2097151k", b"2097152k", b"2047m", b"2048m", b"0x7fffffff", b"0x80000000",
        b"017777777777", b"020000000000", b"\x0b1", b" true", b"true ", b"on "]


class Interp(Suite):
    name = "interp"
    go_cmd = "c48"
    coq_imports = "From GoGit Require Import Model.ConfigEnc."
    quick_n = 120
    thorough_n = 1500
    coq_chunk = 170

    def mk(self, kind, v, bucket):
        hdr, key, _, _ = KINDS[kind]
        f = hdr + b"\n\t" + key + (b"" if v is None else b" = " + py_quote(v)) + b"\n"
        return {"bucket": bucket, "op": "interp", "kind": kind, "v": None if v is None else v.hex(), "file": f.hex()}

    CORE = [b"true", b"false", b"yes", b"no", b"on", b"off", b"True", b"FALSE", b"On", b"oFF", b"YES", b"No", b"", b"0", b"1", b"2",
            b"-1", b"+1", b"1k", b"010", b"0x10", b"t", b"F", b"2147483648"]

    def gen(self, rng, n, tier):
        cases = []
        kinds = sorted(KINDS)
        # a fixed grid first: every reader call site x every core spelling (a realistic edit touches one word of one reader)
        for k in kinds:
            cases.append(self.mk(k, None, "valueless"))
            for v in self.CORE:
                cases.append(self.mk(k, v, "grid"))
        for j in range(n):
            kind = kinds[j % len(kinds)] if rng.random() < 0.5 else rng.choice(["window", "ntfs", "bare", "taggpg", "wtconfig", "filemode"])
            if rng.random() < 0.7:
                cases.append(self.mk(kind, rng.choice(POOL), "pool"))
            else:
                cases.append(self.mk(kind, rbytes(rng, rng.randrange(1, 6), b"01279kKmMgGxXtruefalsyno+- TF"), "random"))
        if tier == "thorough":
            for kind in ["ntfs", "window", "taggpg", "bare"]:
                for v in POOL:
                    cases.append(self.mk(kind, v, "pool-all"))
        return cases

    def model_expr(self, c):
        return 'c48_interp "%s" %s' % (c["kind"], "None" if c["v"] is None else '(Some %s)' % coq_chunks(c["v"]))

    def oracle(self, ctx, cases, impl, model):
        """where git gives the setting a meaning, go-git gives it the same one"""
        d = os.path.join(ctx.tmp, "interp")
        os.makedirs(d, exist_ok=True)
        # git's reading depends only on the value and on bool / int: one process per distinct (type, value)
        uniq = {}
        for c in cases:
            uniq.setdefault((KINDS[c["kind"]][3], c["v"]), []).append(c["id"])
        jobs = {}
        for n, (typ, vh) in enumerate(uniq):
            p = os.path.join(d, "f%d" % n)
            with open(p, "wb") as f:
                f.write(b"[t]\n\tk" + (b"" if vh is None else b" = " + py_quote(bytes.fromhex(vh))) + b"\n")
            jobs[(typ, vh)] = (p, "--type=%s --get t.k" % typ)
        ans = {kf: (out.decode().strip() if rc == 0 else None) for kf, (rc, out) in git_batch(d, jobs).items()}
        self.git_ans = {i: ans[kf] for kf, ids in uniq.items() for i in ids}
        fails = {}
        for c in cases:
            i = c["id"]
            g = self.git_ans[i]
            if g is not None and c["kind"] == "window" and abs(int(g)) > 2**31 - 1:
                g = None                      # `git config --type=int` is 64 bit; pack.window is read with git_config_int (32 bit)
            if g is None:
                continue                      # git dies on this value: nothing to agree with
            r = impl.get(i)
            out = r["out"] if r else "no reply"
            want = "( ok %s )" % g if c["kind"] == "window" else g
            if out != want:
                agrees = model.get(i) is not None and model.get(i) == out
                fails[i] = "%s: git reads %s as %s, go-git as %s%s" % (KINDS[c["kind"]][2], GITKEY[c["kind"]], g, out, " [model-agrees]" if agrees else " [model-differs]")
        return fails

    def finding_class(self, c, reason, reply):
        if "[model-agrees]" not in reason:
            return None
        return "interp-" + KINDS[c["kind"]][2]

    def extra(self, ctx, cases, impl, model):
        # C-git: git_bool / git_int vs the binary
        exprs, want = [], []
        seen = set()
        for c in cases:
            if c["v"] is None or (c["kind"] == "window", c["v"]) in seen:
                continue
            seen.add((c["kind"] == "window", c["v"]))
            g = self.git_ans[c["id"]]
            if c["kind"] == "window":
                exprs.append('c48_spec_int64 %s' % coq_chunks(c["v"]))
            else:
                exprs.append('c48_spec_bool %s' % coq_chunks(c["v"]))
            want.append("none" if g is None else "( some %s )" % g)
        outs = ctx.coq_eval("From GoGit Require Import Model.ConfigEnc Spec.GitConfig.", exprs, chunk=200)
        bad = 0
        for e, o, w in zip(exprs, outs, want):
            if o != w:
                bad += 1
                if bad <= 5:
                    ctx.notes.append("spec_mismatch (interp) %s: S=%s git=%s" % (e, o, w))
        return {"spec_vs_git_cases": len(exprs), "spec_mismatches": bad}


# ------------------------------------------------------------------ marshal

def gen_text(rng, kind="any"):
    if kind == "name":       # subsection-ish names: no LF / NUL / CR / invalid UTF-8 (those are the encode suite's business)
        return rng.choice([b"origin", b"up stream", b'we"ird', b"back\\slash", "é€".encode(), b"a.b.c", b"UPPER", b"x#y;z", b"tab\there", b"o]x"])
    return rng.choice([b"Jane Doe", b" lead", b"trail ", b'q"uote', b"semi;colon", b"hash#tag", b"back\\slash", b"tab\tx", "ünï".encode(),
                       b"https://example.com/r.git", b"/srv/git/x y.git", b"C:\\repos\\x", b"plain", b"two  spaces"])


class Marshal(Suite):
    name = "marshal"
    go_cmd = "c48"
    quick_n = 80
    thorough_n = 500

    def gen(self, rng, n, tier):
        cases = []
        for _ in range(n):
            c = {"bucket": "config", "op": "marshal", "bare": rng.random() < 0.3, "filemode": rng.random() < 0.7,
                 "worktree": (gen_text(rng) if rng.random() < 0.3 else b"").hex(), "autocrlf": rng.choice([b"", b"true", b"input", b"false"]).hex(),
                 "hookspath": (gen_text(rng) if rng.random() < 0.2 else b"").hex(),
                 "uname": (gen_text(rng) if rng.random() < 0.6 else b"").hex(), "uemail": rng.choice([b"", b"j@example.com", b"a b@x"]).hex(),
                 "window": rng.choice([10, 10, 0, 1, 50, 4294967295]), "defaultbranch": rng.choice([b"", b"main", b"trunk"]).hex(),
                 "remotes": [], "branches": [], "submodules": [], "urls": []}
            for nm in rng.sample([gen_text(rng, "name") for _ in range(6)], rng.randrange(0, 3)):
                if any(bytes.fromhex(r["name"]) == nm for r in c["remotes"]):
                    continue
                urls = list(dict.fromkeys(gen_text(rng) for _ in range(rng.randrange(1, 4))))
                fetch = list(dict.fromkeys(rng.choice([b"+refs/heads/*:refs/remotes/o/*", b"refs/tags/*:refs/tags/*", b"+refs/pull/*/head:refs/remotes/o/pr/*"]) for _ in range(rng.randrange(0, 3))))
                c["remotes"].append({"name": nm.hex(), "urls": [u.hex() for u in urls], "fetch": [f.hex() for f in fetch], "mirror": rng.random() < 0.2})
            for nm in rng.sample([b"main", b"feature/x", b"Rel-1.0", b"dev_2"], rng.randrange(0, 3)):
                c["branches"].append({"name": nm.hex(), "remote": rng.choice([b"", b"origin", b"up stream"]).hex(),
                                      "merge": rng.choice([b"", b"refs/heads/main"]).hex(), "rebase": rng.choice([b"", b"true", b"interactive", b"false"]).hex(),
                                      "description": rng.choice([b"", b"", b"one line", b"two\nlines", b"semi; colon # hash", b"back\\slash", b"lit\\nseq"]).hex()})
            for nm in rng.sample([b"lib/x", b"with space", b'q"uote', b"sub1"], rng.randrange(0, 3)):
                c["submodules"].append({"name": nm.hex(), "path": nm.hex(), "url": gen_text(rng).hex(), "branch": rng.choice([b"", b"main", b"."]).hex()})
            for nm in rng.sample([b"zz://mirror/", b"git@host:", b"https://x y/"], rng.randrange(0, 3)):
                ios = list(dict.fromkeys(rng.choice([b"zz:a", b"zz:b c", b"zz:#d"]) for _ in range(rng.randrange(1, 3))))
                c["urls"].append({"name": nm.hex(), "insteadof": [x.hex() for x in ios]})
            cases.append(c)
        return cases

    @staticmethod
    def expected(c):
        h = bytes.fromhex
        e = {b"core.bare": [b"true" if c["bare"] else b"false"], b"core.filemode": [b"true" if c["filemode"] else b"false"]}
        for k, f in [(b"core.worktree", "worktree"), (b"core.autocrlf", "autocrlf"), (b"core.hookspath", "hookspath"), (b"user.name", "uname"),
                     (b"user.email", "uemail"), (b"init.defaultbranch", "defaultbranch")]:
            if c[f]:
                e[k] = [h(c[f])]
        if c["window"] != 10:
            e[b"pack.window"] = [str(c["window"]).encode()]
        for r in c["remotes"]:
            p = b"remote." + h(r["name"]) + b"."
            e[p + b"url"] = [h(u) for u in r["urls"]]
            if r["fetch"]:
                e[p + b"fetch"] = [h(u) for u in r["fetch"]]
            if r["mirror"]:
                e[p + b"mirror"] = [b"true"]
        for b in c["branches"]:
            p = b"branch." + h(b["name"]) + b"."
            for k in ("remote", "merge", "rebase", "description"):
                if b[k]:
                    e[p + k.encode()] = [h(b[k])]
        for m in c["submodules"]:
            p = b"submodule." + h(m["name"]) + b"."
            e[p + b"url"] = [h(m["url"])]
            if m["branch"]:
                e[p + b"branch"] = [h(m["branch"])]
        for u in c["urls"]:
            e[b"url." + h(u["name"]) + b".insteadof"] = [h(x) for x in u["insteadof"]]
        return e

    def oracle(self, ctx, cases, impl, model):
        """git reads what Config.Marshal wrote to the values that were set; go-git's own Unmarshal too"""
        fails, blobs = {}, {}
        for c in cases:
            ex = (impl.get(c["id"]) or {}).get("extra") or {}
            if "bytes" not in ex:
                fails[c["id"]] = "marshal failed"
                continue
            blobs[c["id"]] = bytes.fromhex(ex["bytes"])
        got = git_list_concat(ctx, blobs, "mar")

        def bad(c):
            if got[c["id"]] is None:
                return True
            g = group(got[c["id"]])
            return any(g.get(k) != vs for k, vs in self.expected(c).items())
        got.update(git_list_many(ctx, {c["id"]: blobs[c["id"]] for c in cases if c["id"] in blobs and bad(c)}, "mar-solo"))
        for c in cases:
            i = c["id"]
            if i not in blobs:
                continue
            why = []
            if got[i] is None:
                why.append("git: rejects the marshalled config")
            else:
                g = group(got[i])
                for k, vs in sorted(self.expected(c).items()):
                    if g.get(k) != vs:
                        why.append("git:%s: reads %r, set %r" % ("description" if k.endswith(b".description") else "key", g.get(k), vs))
                        break
            ex = impl[i]["extra"]
            if "readback" not in ex:
                why.append("readback-err: %s" % ex.get("readback_err", "?")[:100])
            else:
                rb = ex["readback"]
                for f in ("bare", "filemode", "worktree", "autocrlf", "hookspath", "uname", "uemail", "window", "defaultbranch"):
                    if rb[f] != c[f]:
                        why.append("readback: %s = %r, set %r" % (f, rb[f], c[f]))
                want_r = sorted(({"name": r["name"], "urls": r["urls"], "fetch": r["fetch"], "mirror": r["mirror"]} for r in c["remotes"]), key=lambda r: bytes.fromhex(r["name"]))
                if rb["remotes"] != want_r:
                    why.append("readback: remotes %r, set %r" % (rb["remotes"], want_r))
                want_b = sorted(({k: b[k] for k in ("name", "remote", "merge", "rebase", "description")} for b in c["branches"]), key=lambda b: bytes.fromhex(b["name"]))
                if rb["branches"] != want_b:
                    why.append("readback%s: branches %r, set %r" % ("-description" if [dict(b, description="") for b in rb["branches"]] == [dict(b, description="") for b in want_b] else "", rb["branches"], want_b))
                want_m = sorted(({"name": m["name"], "url": m["url"], "branch": m["branch"]} for m in c["submodules"]), key=lambda m: bytes.fromhex(m["name"]))
                # core config keeps no path for a submodule; Unmarshal drops path-less ones (Validate) — not compared
                want_u = [{"name": u["name"], "insteadof": u["insteadof"]} for u in c["urls"]]
                if rb["urls"] != want_u:
                    why.append("readback: urls %r, set %r" % (rb["urls"], want_u))
            if why:
                fails[i] = reason_join(why)
        return fails

    def finding_class(self, c, reason, reply):
        descs = [bytes.fromhex(b["description"]) for b in c["branches"]]
        classes = []
        for part in reason.split(" || "):
            if part.startswith("git:description:") and any(b"\n" in d for d in descs):
                classes.append("marshal-branch-description-newline")
            elif part.startswith("readback-description:") and any(b"\\n" in d for d in descs):
                classes.append("marshal-branch-description-backslash-n")
            else:
                classes.append(None)
        if not classes or any(k is None for k in classes):
            return None
        return classes[0]


# ------------------------------------------------------------------ option operations (SetOption / AddOption / RemoveOption)

def recase(rng, b):
    """a random letter-case spelling of an ASCII name"""
    k = rng.randrange(5)
    if k == 0:
        return b
    if k == 1:
        return b.upper()
    if k == 2:
        return b[:1].upper() + b[1:]
    return bytes((c ^ 0x20) if (65 <= c <= 90 or 97 <= c <= 122) and rng.random() < 0.4 else c for c in b)


OPT_KEYS = [b"url", b"fetch", b"bare", b"insteadof", b"merge", b"x-1", b"pushurl"]
OPT_VALS = [b"a", b"b", b"c", b"true", b"false", b"", b"A"]


class Opts(Suite):
    name = "opts"
    go_cmd = "c48"
    coq_imports = "From GoGit Require Import Model.ConfigOpts."
    quick_n = 160
    thorough_n = 2500

    def gen(self, rng, n, tier):
        cases = []
        for _ in range(n):
            keys = rng.sample(OPT_KEYS, rng.randrange(1, 4))
            os_ = [[recase(rng, rng.choice(keys)).hex(), rng.choice(OPT_VALS).hex()] for _ in range(rng.randrange(0, 7))]
            ops = []
            nops = rng.randrange(1, 4)
            for j in range(nops):
                kind = "add" if j < nops - 1 else pick_weighted(rng, [(7, "set"), (3, "remove")])
                k = recase(rng, rng.choice(keys)) if rng.random() < 0.5 else rng.choice(keys)
                if kind == "set":
                    vs = [rng.choice(OPT_VALS) for _ in range(pick_weighted(rng, [(6, 1), (2, 2), (1, 3), (1, 0)]))]
                elif kind == "add":
                    vs = [rng.choice(OPT_VALS)]
                else:
                    vs = []
                ops.append({"kind": kind, "k": k.hex(), "vs": [v.hex() for v in vs]})
            reads = [recase(rng, k).hex() for k in keys] + [k.hex() for k in keys]
            cases.append({"bucket": "ops", "op": "opts", "os": os_, "ops": ops, "reads": reads})
        return cases

    def model_expr(self, c):
        os_ = coq_list(['("%s", "%s")' % (k, v) for k, v in c["os"]])
        ops = coq_list(['("%s", "%s", %s)' % (o["kind"], o["k"], coq_list(['"%s"' % v for v in o["vs"]])) for o in c["ops"]])
        return "c48_opts %s %s %s" % (os_, ops, coq_list(['"%s"' % k for k in c["reads"]]))

    def nontrivial(self, c):
        ks = [bytes.fromhex(k) for k, _ in c["os"]] + [bytes.fromhex(o["k"]) for o in c["ops"]]
        return len({k.lower() for k in ks}) < len(set(ks))

    @staticmethod
    def parse(out):
        """'( ok ( ( xK xV ) ... ) ( ( xGet ( xAll ... ) ) ... ) )' -> (options, reads)"""
        toks = out.split()
        pos = [0]

        def val():
            t = toks[pos[0]]
            pos[0] += 1
            if t == "(":
                l = []
                while toks[pos[0]] != ")":
                    l.append(val())
                pos[0] += 1
                return l
            return bytes.fromhex(t[1:]) if t.startswith("x") else t
        v = val()
        if not isinstance(v, list) or not v or v[0] != "ok":
            return None
        return v[1], v[2]

    def oracle(self, ctx, cases, impl, model):
        """the abstract contract on the implementation: after the last set / remove of key K, under every spelling of K
        only the new values are left (all of them), and options under other keys are untouched"""
        fails = {}
        for c in cases:
            r = impl.get(c["id"])
            p = self.parse(r["out"]) if r and r["out"].startswith("( ok") else None
            if p is None:
                fails[c["id"]] = "no result: %s" % (r["out"][:80] if r else None)
                continue
            fin, reads = p
            # reference: the options are a multimap with case-insensitive keys; the adds append, the final
            # set / remove of K leaves exactly the new values under K's spellings and nothing else changes
            cur = [(bytes.fromhex(k), bytes.fromhex(v)) for k, v in c["os"]]
            for o in c["ops"][:-1]:
                cur.append((bytes.fromhex(o["k"]), bytes.fromhex(o["vs"][0])))
            o = c["ops"][-1]
            k = bytes.fromhex(o["k"]).lower()
            last = {k: {bytes.fromhex(v) for v in o["vs"]}}
            why = None
            fin = [(x[0], x[1]) for x in fin]
            have = [b for a, b in fin if a.lower() == k]
            if set(have) != last[k]:
                why = "after %s of %r to %r the options under its spellings hold %r" % (o["kind"], k, sorted(last[k]), have)
            others_have = [(a, b) for a, b in fin if a.lower() != k]
            others_want = [(a, b) for a, b in cur if a.lower() != k]
            if why is None and others_have != others_want:
                why = "options under other keys changed: %r, expected %r" % (others_have, others_want)
            for kh, rd in zip(c["reads"], reads):
                k = bytes.fromhex(kh)
                if k.lower() in last and why is None:
                    if set(rd[1]) != last[k.lower()] or (last[k.lower()] and rd[0] not in last[k.lower()]) or (not last[k.lower()] and rd[0] != b""):
                        why = "reading %r gives %r / %r, expected %r" % (k, rd[0], rd[1], sorted(last[k.lower()]))
            if why:
                fails[c["id"]] = why
        return fails


# ------------------------------------------------------------------ read-modify-write through config.Config

PLAIN = b"abcdefghijklmnopqrstuvwxyzABCDEFGHIJKLMNOPQRSTUVWXYZ0123456789:/.@_+-*"
FETCHES = [b"+refs/heads/*:refs/remotes/origin/*", b"refs/tags/*:refs/tags/*", b"+refs/pull/*/head:refs/remotes/origin/pr/*", b"refs/heads/main:refs/heads/main"]
URLV = [b"https://example.com/a.git", b"https://example.com/b.git", b"git@host.example:c.git", b"/srv/git/d.git", b"ssh://h/e.git"]


def pv(rng):
    return rng.choice([b"alpha", b"Beta", b"x/y", b"v1.2", b"a@b.c", b"main", b"trunk", b"42"])


class RMW(Suite):
    name = "rmw"
    go_cmd = "c48"
    quick_n = 120
    thorough_n = 1500

    # (section, key) pairs go-git manages without a subsection, with the harness field they map to
    SINGLE = {(b"core", b"worktree"): "worktree", (b"core", b"autocrlf"): "autocrlf", (b"core", b"hookspath"): "hookspath",
              (b"user", b"name"): "uname", (b"user", b"email"): "uemail", (b"init", b"defaultbranch"): "defaultbranch"}

    def gen(self, rng, n, tier):
        cases = []
        while len(cases) < n:
            ents = []          # (section, sub|None, key spelling, value)  in file order, per block

            def add(sec, sub, key, val, stale=True):
                if stale and rng.random() < 0.35:
                    ents.append((sec, sub, recase(rng, key), pv(rng) if val not in (b"true", b"false") else rng.choice([b"true", b"false"])))
                ents.append((sec, sub, recase(rng, key), val))
            if rng.random() < 0.8:
                if rng.random() < 0.8:
                    add(b"core", None, b"bare", rng.choice([b"true", b"false"]))
                if rng.random() < 0.6:
                    add(b"core", None, b"filemode", rng.choice([b"true", b"false"]))
                if rng.random() < 0.3:
                    add(b"core", None, b"autocrlf", rng.choice([b"true", b"input", b"false"]))
                if rng.random() < 0.2:
                    add(b"core", None, b"hookspath", pv(rng))
                if rng.random() < 0.5:
                    ents.append((b"core", None, recase(rng, b"ignorecase"), rng.choice([b"true", b"false"])))
                if rng.random() < 0.3:
                    ents.append((b"core", None, recase(rng, b"editor"), pv(rng)))
            if rng.random() < 0.6:
                add(b"user", None, b"name", pv(rng))
                if rng.random() < 0.6:
                    add(b"user", None, b"email", b"j@example.com")
                if rng.random() < 0.3:
                    ents.append((b"user", None, recase(rng, b"useconfigonly"), b"true"))
            if rng.random() < 0.3:
                add(b"pack", None, b"window", rng.choice([b"5", b"10", b"50"]))
            if rng.random() < 0.3:
                add(b"init", None, b"defaultbranch", rng.choice([b"main", b"trunk"]))
            for rn in rng.sample([b"origin", b"Up", b"fork-1"], rng.randrange(0, 3)):
                for u in rng.sample(URLV, rng.randrange(1, 3)):
                    ents.append((b"remote", rn, recase(rng, b"url"), u))
                for f in rng.sample(FETCHES, rng.randrange(0, 3)):
                    ents.append((b"remote", rn, recase(rng, b"fetch"), f))
                if rng.random() < 0.3:
                    add(b"remote", rn, b"mirror", rng.choice([b"true", b"false"]))
                if rng.random() < 0.2:
                    ents.append((b"remote", rn, recase(rng, b"promisor"), rng.choice([b"true", b"false"])))
                    if rng.random() < 0.7:
                        ents.append((b"remote", rn, recase(rng, b"partialclonefilter"), b"blob:none"))
                if rng.random() < 0.4:
                    ents.append((b"remote", rn, recase(rng, b"tagopt"), b"--no-tags"))
            for bn in rng.sample([b"main", b"feature/x", b"Rel-1.0"], rng.randrange(0, 3)):
                if rng.random() < 0.8:
                    add(b"branch", bn, b"remote", rng.choice([b"origin", b"Up"]))
                if rng.random() < 0.8:
                    add(b"branch", bn, b"merge", rng.choice([b"refs/heads/main", b"refs/heads/dev"]))
                if rng.random() < 0.3:
                    add(b"branch", bn, b"rebase", rng.choice([b"true", b"interactive", b"false"]), stale=False)
                if rng.random() < 0.2:
                    add(b"branch", bn, b"description", pv(rng))
                if rng.random() < 0.3:
                    ents.append((b"branch", bn, recase(rng, b"pushremote"), b"fork-1"))
            for un in rng.sample([b"zz://mirror/", b"qq:"], rng.randrange(0, 2)):
                for io in rng.sample([b"zz:a", b"zz:b", b"zz:c"], rng.randrange(1, 3)):
                    ents.append((b"url", un, recase(rng, b"insteadof"), io))
                if rng.random() < 0.3:
                    ents.append((b"url", un, recase(rng, b"pushinsteadof"), b"zz:p"))
            if rng.random() < 0.4:
                ents.append((b"alias", None, b"co", b"checkout"))
                ents.append((b"Foo", b"Bar", recase(rng, b"key"), pv(rng)))
            if not ents:
                continue
            # lay the entries out as blocks: consecutive entries of the same (section, sub) share a header;
            # sometimes a section is split into two blocks
            text, prev = b"", None
            order = sorted(range(len(ents)), key=lambda i: (0, i)) if rng.random() < 0.7 else list(range(len(ents)))
            blocks = []
            for i in order:
                sec, sub, key, val = ents[i]
                if prev != (sec, sub) or rng.random() < 0.1:
                    hs = recase(rng, sec)
                    text += b"[" + hs + (b' "' + sub + b'"' if sub is not None else b"") + b"]\n"
                    prev = (sec, sub)
                text += rng.choice([b"\t", b"  ", b""]) + key + rng.choice([b" = ", b"=", b" =  "]) + val + b"\n"
            # mutation
            mut = {}
            if rng.random() < 0.5:
                mut["bare"] = rng.random() < 0.5
            if rng.random() < 0.3:
                mut["filemode"] = rng.random() < 0.5
            for f in ("worktree", "autocrlf", "hookspath", "uname", "uemail", "defaultbranch"):
                if rng.random() < 0.2:
                    mut[f] = (rng.choice([b"true", b"input"]) if f == "autocrlf" else pv(rng)).hex()
            if rng.random() < 0.2:
                mut["window"] = rng.choice([7, 50, 100])
            rnames = sorted({e[1] for e in ents if e[0] == b"remote"})
            mr = []
            for rn in rnames + ([b"newremote"] if rng.random() < 0.2 else []):
                if rng.random() < 0.5:
                    m = {"name": rn.hex()}
                    if rng.random() < 0.7 or rn == b"newremote":
                        m["urls"] = [u.hex() for u in rng.sample(URLV, rng.randrange(1, 3))]
                    if rng.random() < 0.4:
                        m["fetch"] = [f.hex() for f in rng.sample(FETCHES, rng.randrange(0, 3))]
                    if rng.random() < 0.2:
                        m["mirror"] = True
                    mr.append(m)
            if mr:
                mut["remotes"] = mr
            mb = []
            for bn in sorted({e[1] for e in ents if e[0] == b"branch"}) + ([b"newbranch"] if rng.random() < 0.15 else []):
                if rng.random() < 0.5:
                    m = {"name": bn.hex()}
                    if rng.random() < 0.6:
                        m["remote"] = rng.choice([b"origin", b"fork-1", b""]).hex()
                    if rng.random() < 0.6:
                        m["merge"] = rng.choice([b"refs/heads/next", b"refs/heads/main", b""]).hex()
                    if rng.random() < 0.3:
                        m["rebase"] = rng.choice([b"true", b"false", b""]).hex()
                    if rng.random() < 0.2:
                        m["description"] = rng.choice([b"new text", b""]).hex()
                    mb.append(m)
            if mb:
                mut["branches"] = mb
            mu = []
            for un in sorted({e[1] for e in ents if e[0] == b"url"}):
                if rng.random() < 0.5:
                    mu.append({"name": un.hex(), "insteadof": [x.hex() for x in rng.sample([b"zz:a", b"zz:b", b"zz:d"], rng.randrange(1, 3))]})
            if mu:
                mut["urls"] = mu
            cases.append({"bucket": "rmw", "op": "rmw", "file": text.hex(), "mut": mut,
                          "ents": [[a.hex(), None if b is None else b.hex(), k.hex(), v.hex()] for a, b, k, v in ents]})
        return cases

    def nontrivial(self, c):
        ks = [bytes.fromhex(e[2]) for e in c["ents"]]
        return any(k != k.lower() for k in ks)

    @staticmethod
    def expected(c, orig):
        """orig: git's reading of the original file {name: [values]} -> the expected reading of the rewritten file.
        Managed keys: exactly the (new or carried-over) value; everything else as in the original."""
        h = bytes.fromhex
        mut = c["mut"]
        exp = dict(orig)
        managed = set()

        def last(name, default=None):
            return orig[name][-1] if name in orig else default
        bare = mut["bare"] if "bare" in mut else last(b"core.bare") == b"true"
        exp[b"core.bare"] = [b"true" if bare else b"false"]
        fm = mut["filemode"] if "filemode" in mut else last(b"core.filemode") != b"false"
        exp[b"core.filemode"] = [b"true" if fm else b"false"]
        for (sec, key), f in RMW.SINGLE.items():
            name = sec + b"." + key
            v = h(mut[f]) if f in mut else last(name, b"")
            if v:
                exp[name] = [v]
        w = mut["window"] if "window" in mut else int(last(b"pack.window", b"10"))
        if w != 10:
            exp[b"pack.window"] = [str(w).encode()]
        remotes = {n.split(b".")[1] for n in orig if n.startswith(b"remote.") and n.count(b".") == 2}
        mrem = {h(m["name"]): m for m in mut.get("remotes", [])}
        for rn in remotes | set(mrem):
            p = b"remote." + rn + b"."
            m = mrem.get(rn, {})
            urls = [h(u) for u in m["urls"]] if "urls" in m else orig.get(p + b"url", [])
            exp.pop(p + b"url", None)
            if urls:
                exp[p + b"url"] = urls
            fetch = [h(u) for u in m["fetch"]] if "fetch" in m else orig.get(p + b"fetch", [])
            exp.pop(p + b"fetch", None)
            if fetch:
                exp[p + b"fetch"] = fetch
            mirror = m["mirror"] if "mirror" in m else last(p + b"mirror") == b"true"
            if mirror:
                exp[p + b"mirror"] = [b"true"]
            if last(p + b"promisor") == b"true":
                exp[p + b"promisor"] = [b"true"]
            else:
                exp.pop(p + b"promisor", None)
            pcf = last(p + b"partialclonefilter", b"")
            exp.pop(p + b"partialclonefilter", None)
            if pcf:
                exp[p + b"partialclonefilter"] = [pcf]
        branches = {n[len(b"branch."):n.rindex(b".")] for n in orig if n.startswith(b"branch.") and n.count(b".") >= 2}
        mbr = {h(m["name"]): m for m in mut.get("branches", [])}
        for bn in branches | set(mbr):
            p = b"branch." + bn + b"."
            m = mbr.get(bn, {})
            for k in (b"remote", b"merge", b"rebase", b"description"):
                v = h(m[k.decode()]) if k.decode() in m else last(p + k, b"")
                exp.pop(p + k, None)
                if v:
                    exp[p + k] = [v]
        for m in mut.get("urls", []):
            exp[b"url." + h(m["name"]) + b".insteadof"] = [h(x) for x in m["insteadof"]]
        for n in list(exp) + list(orig):
            sec = n.split(b".")[0]
            key = n.rsplit(b".", 1)[1]
            if (sec == b"core" and key in (b"bare", b"filemode", b"worktree", b"autocrlf", b"hookspath")) or \
               (sec == b"user" and key in (b"name", b"email")) or (sec, key) in ((b"pack", b"window"), (b"init", b"defaultbranch")) or \
               (sec == b"remote" and key in (b"url", b"fetch", b"mirror", b"promisor", b"partialclonefilter")) or \
               (sec == b"branch" and key in (b"remote", b"merge", b"rebase", b"description")) or (sec == b"url" and key == b"insteadof"):
                managed.add(n)
        return exp, managed

    MULTI = (b".url", b".fetch", b".insteadof")

    @classmethod
    def differs(cls, have, want, managed):
        """first difference between two readings.  A managed key must hold exactly the expected set of values
        (SetOption keeps surviving entries where they were, appends new ones, and keeps an entry repeated with the
        same value — compared as sets); every other key must read as before, order included"""
        for k in sorted(set(have) | set(want)):
            a, b = have.get(k), want.get(k)
            if k in managed and a is not None and b is not None:
                a, b = sorted(set(a)), sorted(set(b))
            if a != b:
                return "%s: rewritten file has %r, expected %r" % (k.decode("latin1"), have.get(k), want.get(k))
        return None

    def oracle(self, ctx, cases, impl, model):
        """Unmarshal -> change fields -> Marshal: git (and go-git itself) must read every managed key as the single new
        value and every other key as before"""
        fails, files, outs = {}, {}, {}
        for c in cases:
            files[c["id"]] = bytes.fromhex(c["file"])
            r = impl.get(c["id"])
            ex = (r or {}).get("extra") or {}
            if "bytes" in ex:
                outs[c["id"]] = bytes.fromhex(ex["bytes"])
            else:
                fails[c["id"]] = "go-git failed on a file git accepts: %s %s" % ((r or {}).get("out"), str(ex.get("err"))[:80])
        orig = git_list_many(ctx, files, "rmw-in")
        got = git_list_many(ctx, outs, "rmw-out")
        for c in cases:
            i = c["id"]
            if i not in outs:
                continue
            if orig[i] is None:
                fails.pop(i, None)
                continue                      # generator bug guard: git rejects the input, no requirement
            if got[i] is None:
                fails[i] = "git rejects the rewritten file"
                continue
            want, managed = self.expected(c, group(orig[i]))
            why = self.differs(group(got[i]), want, managed)
            ex = impl[i]["extra"]
            if why is None and "readback" not in ex:
                why = "go-git cannot read back its own output: %s" % ex.get("readback_err", "?")[:80]
            if why is None:
                rb = ex["readback"]
                for m in c["mut"].get("remotes", []):
                    if "urls" in m:
                        have = [r["urls"] for r in rb["remotes"] if r["name"] == m["name"]]
                        if not have or sorted(have[0]) != sorted(m["urls"]):
                            why = "go-git reads back remote %r urls %r, set %r" % (bytes.fromhex(m["name"]), have, m["urls"])
                if "bare" in c["mut"] and rb["bare"] != c["mut"]["bare"]:
                    why = "go-git reads back core.bare %r, set %r" % (rb["bare"], c["mut"]["bare"])
                for f in ("uname", "uemail", "worktree", "autocrlf", "hookspath", "defaultbranch"):
                    if f in c["mut"] and rb[f] != c["mut"][f]:
                        why = "go-git reads back %s %r, set %r" % (f, rb[f], c["mut"][f])
            if why:
                fails[i] = why
        return fails

    def show(self, c):
        d = dict(c)
        d["file_text"] = bytes.fromhex(c["file"]).decode("latin1")
        return d


SUITES = [Encode(), Decode(), Interp(), Marshal(), Opts(), RMW()]
