"""C29 extension (batch d08): "a refused porcelain operation changes nothing" for
Restore, Add, Commit, Merge and Pull, plus refusals forced by injected
filesystem faults.  NOT a property module.  Integration into C29 (verified in a
scratch copy, `./check C29` = 352 cases, 0 broken):
  props/C29.py            from props import c29ops_lib as _O
                          SUITES = [Main()] + _O.SUITES_OPS;  THEOREMS = THEOREMS + _O.THEOREMS_OPS
                          MODEL_FILES = MODEL_FILES + ["PorcelainOps.v"];  MODELLED += "; " + _O.MODELLED_OPS;  TRUSTED += _O.TRUSTED_OPS
  Properties/C29.v        From GoGit Require Export Properties.C29Ops.
  ./mkmanifest.py         (merges findings/C29ops.json into known_findings.json)
  /repo                   cherry-pick "fix: decide the unstaged-changes refusal of Pull before the branch is moved"
`python3 props/c29ops_dev.py [--tier ..] [--seed N] [--suite ops|opsfault]` runs these suites alone
through the shared runner (what ./check C29 will do with them).

A case is a repository recipe (harness/cmd/c29ops):
  commits: [{"tree": [[path, kind, content], ...], "parents": [n, ...]}, ...]   parents have smaller numbers
  nloc:    the first nloc commits are in the local object store, all of them in the remote
  refs:    [[full ref name, commit number], ...]            a number >= len(commits) dangles
  head:    ["sym", ref name] | ["det", commit number]
  index, wt: [[path, kind, content], ...]        user: bool (user.name / user.email configured)
  ops:     restore {staged, worktree, files} | add {path} | addall | addbad
           | commit {all, allow_empty, author, amend} | merge {target, ff}
           | pull {conf, reach, rrefs, rhead, refname} | write {path, kind, content} | rm {path}
  fault:   true = run the LAST op once per k with the k-th filesystem call failing
"""
import json
from vf.core import Suite
from vf.gen import pick_weighted

ID = "C29"

THEOREMS_OPS = [
    "C29_restore_atomic", "C29_add_atomic", "C29_merge_atomic",
    "C29_commit_atomic_partial", "C29_commit_atomic_refuted", "C29_commit_keeps_refs_worktree",
    "C29_pull_atomic_partial", "C29_pull_atomic_refuted", "C29_pull_unrepaired_refuted",
    "C29_pull_no_late_refusal", "C29_xstep_atomic_partial",
    "C29_effects_sound", "C29_fault_refused_atomic", "C29_fault_single_store_atomic", "C29_fault_prefix_refuted", "C29_fault_commit_all_refuted",
]

MODEL_FILES_OPS = ["Porcelain.v", "PorcelainOps.v"]

MODELLED_OPS = (
    "C29 extension (Model/PorcelainOps.v, same flattened level, own state record with commit parents and the user.name/email flag): "
    "worktree.go Restore (RestoreOptions.Validate, Reset{Files, Hard|Mixed}: Validate, getTreeFromCommitHash, setHEADCommit, resetIndex and "
    "step 2 of resetWorktreeToTree restricted to the path list, checkoutChange); worktree_status.go Add / AddWithOptions{All} / "
    "AddOptions.Validate (doAdd, doAddDirectory, doAddFile against the Status computed beforehand, index stored only when no name failed); "
    "worktree_commit.go Commit (CommitOptions.Validate incl. loadConfigAuthorAndCommitter, autoAddModifiedAndDeleted, Amend, both "
    "ErrEmptyCommit tests, updateHEAD); repository.go Merge (FastForwardMerge only) with remote.go isFastForward (no shallow boundaries); "
    "worktree.go PullContext (remote lookup, the reference half of fetch for +refs/heads/*:refs/remotes/origin/*, ResolveReference, "
    "already-up-to-date and fast-forward tests, updateHEAD, Reset{MergeReset}) in the order of the repaired code (fix: decide the unstaged-changes "
    "refusal of Pull before the branch is moved), the unrepaired order kept as pull_unrepaired; the stores of every operation as an effect list "
    "(effects) for injected faults. Not modelled: AddGlob, hooks, signing, commit messages, the object store (new commits are numbered), pack "
    "transfer and tags of fetch, shallow boundaries, submodule recursion, directory/file conflicts, the billy calls themselves (exercised by the "
    "fault suite: the k-th filesystem call of the operation fails, for every k)")

TRUSTED_OPS = [
    "C-impl: harness/cmd/c29ops vs Model/PorcelainOps.c29ops_run (result class + snapshot after every op)",
    "direct oracle (suite ops): for every restore / add / commit / merge / pull that returns an error, the snapshot taken before the call (HEAD, "
    "every ref outside refs/remotes, raw bytes of .git/HEAD, .git/packed-refs and .git/refs/** outside refs/remotes, decoded index entries, every "
    "worktree file with kind and bytes, lock files left in .git) must equal the one taken after",
    "direct oracle (suite opsfault): the same comparison after each run of the operation in which the k-th billy call (filesystem method or file "
    "Read/Write/Close, torn Write) was made to fail and the operation returned an error",
]

PATHS = ["a", "ab", "b", "d/x", "d/y", "d/e/z", "k.txt", "z"]
DIRS = ["d", "d/e", "."]
CONTENTS = ["A\n", "B\n", "C\n", "", "line1\nline2\n", "x"]
LINKS = ["a", "d/x", "nowhere", "../out"]
KCOQ = {"f": "KReg", "x": "KExec", "l": "KLink"}
PORCELAIN = ("restore", "add", "addall", "addbad", "commit", "merge", "pull")

COQ_IMPORTS = ("From GoGit Require Import Model.Porcelain Model.PorcelainOps.\n"
               "Definition u := unhex.\n")


def hx(s):
    return '(u "%s")' % s.encode().hex()


def coq_fmap(ents):
    return "[" + "; ".join("(%s, (%s, %s))" % (hx(p), KCOQ[k], hx(c)) for p, k, c in ents) + "]"


def coq_Z(n):
    return "(%d)%%Z" % n


def coq_bool(b):
    return "true" if b else "false"


def coq_refs(refs):
    return "[" + "; ".join("(%s, %s)" % (hx(n), coq_Z(k)) for n, k in refs) + "]"


def coq_op(o):
    k = o["op"]
    if k == "restore":
        return "XRestore %s %s [%s]" % (coq_bool(o["staged"]), coq_bool(o["worktree"]), "; ".join(hx(p) for p in o["files"]))
    if k == "add":
        return "XAdd %s" % hx(o["path"])
    if k == "addall":
        return "XAddAll"
    if k == "addbad":
        return "XAddBad"
    if k == "commit":
        return "XCommit (mkCO %s %s %s %s)" % (coq_bool(o["all"]), coq_bool(o["allow_empty"]), coq_bool(o["author"]), coq_bool(o["amend"]))
    if k == "merge":
        return "XMerge %s %s" % (coq_Z(o["target"]), coq_bool(o["ff"]))
    if k == "pull":
        return "XPull (mkPE %s %s %s (Some %s) %s)" % (coq_bool(o["conf"]), coq_bool(o["reach"]), coq_refs(o["rrefs"]),
                                                      hx(o.get("rhead") or "refs/heads/master"), hx(o.get("refname", "")))
    if k == "write":
        return "XWrite %s (%s, %s)" % (hx(o["path"]), KCOQ[o["kind"]], hx(o["content"]))
    if k == "rm":
        return "XRm %s" % hx(o["path"])
    raise ValueError(o)


def file_paths(c):
    ps = set()
    for cm in c["commits"]:
        ps.update(e[0] for e in cm["tree"])
    ps.update(e[0] for e in c["index"])
    ps.update(e[0] for e in c["wt"])
    for o in c["ops"]:
        if o["op"] in ("write", "rm"):
            ps.add(o["path"])
        if o["op"] == "restore":
            ps.update(o["files"])
    return ps


def df_free(c):
    ps = sorted(file_paths(c))
    for i, p in enumerate(ps):
        for q in ps[i + 1:]:
            if q.startswith(p + "/"):
                return False
    return True


def in_model(c):
    if not df_free(c):
        return False
    fps = file_paths(c)
    for e in [e for cm in c["commits"] for e in cm["tree"]] + c["index"] + c["wt"]:
        if e[1] not in KCOQ:
            return False
    for p in fps:
        if p == ".gitignore" or p.endswith("/.gitignore") or p.startswith(".git/") or p == ".git" or p in ("", "."):
            return False
    for o in c["ops"]:
        if o["op"] == "add":
            p = o["path"]
            # a directory argument must not be a file of the case, a file argument must not lie below / above a file
            if p not in fps and p != "." and any(p.startswith(q + "/") for q in fps):
                return False
        if o["op"] == "pull" and any(not n.startswith("refs/heads/") for n, _ in o["rrefs"]):
            return False
    return True


def model_expr(c):
    if not in_model(c):
        return None
    head = "HSym %s" % hx(c["head"][1]) if c["head"][0] == "sym" else "HDet %s" % coq_Z(c["head"][1])
    st = "(mkR [%s] %s (%s) %s %s %s)" % (
        "; ".join("mkCmt %s [%s]" % (coq_fmap(cm["tree"]), "; ".join(coq_Z(p) for p in cm.get("parents", []))) for cm in c["commits"]),
        coq_refs(c["refs"]), head, coq_fmap(c["index"]), coq_fmap(c["wt"]), coq_bool(c.get("user", False)))
    if c.get("fault"):
        return "c29ops_fault_base %s [%s] (%s)" % (st, "; ".join(coq_op(o) for o in c["ops"][:-1]), coq_op(c["ops"][-1]))
    return "c29ops_run %s [%s]" % (st, "; ".join(coq_op(o) for o in c["ops"]))


# ------------------------------------------------------------------ generator

def rent(rng, p):
    k = pick_weighted(rng, [(6, "f"), (2, "x"), (2, "l")])
    return [p, k, rng.choice(LINKS) if k == "l" else rng.choice(CONTENTS)]


def rtree(rng, paths, density=0.6):
    return [rent(rng, p) for p in paths if rng.random() < density]


def mutate(rng, tree, paths, rate=0.5):
    cur = {e[0]: e for e in tree}
    out = []
    for p in paths:
        e = cur.get(p)
        r = rng.random()
        if e is None:
            if r < 0.25 * rate * 2:
                out.append(rent(rng, p))
            continue
        if r > rate:
            out.append(list(e))
            continue
        a = pick_weighted(rng, [(4, "mod"), (2, "mode"), (1, "swap"), (3, "del")])
        if a == "mod":
            n = rent(rng, p)
            n[1] = e[1]
            n[2] = rng.choice(LINKS) if e[1] == "l" else rng.choice(CONTENTS)
            out.append(n)
        elif a == "mode":
            out.append([p, {"f": "x", "x": "f", "l": "l"}[e[1]], e[2]])
        elif a == "swap":
            out.append([p, "l", rng.choice(LINKS)] if e[1] != "l" else [p, "f", rng.choice(CONTENTS)])
    return out


def norm(ents):
    return sorted(({e[0]: e for e in ents}).values(), key=lambda e: e[0])


def ancestors(commits, n):
    seen, todo = set(), [n]
    while todo:
        x = todo.pop()
        if x in seen or x < 0 or x >= len(commits):
            continue
        seen.add(x)
        todo.extend(commits[x].get("parents", []))
    return seen


def gen_repo(rng, bucket):
    """commits (a small DAG), refs, HEAD, index and worktree; returns the case without ops"""
    ncom = rng.randrange(2, 6)
    commits = []
    for i in range(ncom):
        if i == 0:
            commits.append({"tree": rtree(rng, PATHS), "parents": []})
            continue
        r = rng.random()
        if r < 0.6:
            parents = [i - 1]
        elif r < 0.9:
            parents = [rng.randrange(i)]
        else:
            parents = sorted(set([rng.randrange(i), rng.randrange(i)]), reverse=True)
        commits.append({"tree": mutate(rng, commits[parents[0]]["tree"], PATHS, 0.5), "parents": parents})
    nloc = ncom if bucket not in ("pull", "calm") else rng.randrange(1, ncom + 1)
    refs = [["refs/heads/master", rng.randrange(nloc)]]
    for b in ["refs/heads/other", "refs/heads/f/x", "refs/tags/t"]:
        if rng.random() < 0.5:
            refs.append([b, rng.randrange(nloc)])
    if bucket in ("pull", "random") and rng.random() < 0.5:
        refs.append(["refs/remotes/origin/master", rng.randrange(nloc)])
    if bucket == "errors" and rng.random() < 0.3:
        refs.append(["refs/heads/dangling", ncom + 5])
    r = rng.random()
    if bucket == "errors" and r < 0.25:
        head = ["sym", "refs/heads/unborn"]
    elif bucket == "errors" and r < 0.4:
        head = ["det", ncom + 5]
    elif bucket == "errors" and r < 0.6:
        if not any(x[0] == "refs/heads/dangling" for x in refs):
            refs.append(["refs/heads/dangling", ncom + 5])
        head = ["sym", "refs/heads/dangling"]
    elif bucket == "errors" and r < 0.75:
        if not any(x[0] == "refs/tags/t" for x in refs):
            refs.append(["refs/tags/t", rng.randrange(nloc)])
        head = ["sym", "refs/tags/t"]
    elif r < 0.85:
        head = ["sym", rng.choice([x[0] for x in refs if x[0].startswith("refs/heads/") and x[1] < ncom])]
    else:
        head = ["det", rng.randrange(nloc)]
    hc = head[1] if head[0] == "det" else dict((a, b) for a, b in refs).get(head[1])
    htree = commits[hc]["tree"] if hc is not None and 0 <= hc < ncom else []
    index = [list(e) for e in htree]
    mods = rng.randrange(0, 3) if bucket not in ("clean", "calm") else 0
    for _ in range(mods):
        a = rng.choice(["new", "mod", "del"])
        if a == "new":
            cand = [p for p in PATHS if p not in [e[0] for e in index]]
            if cand:
                index.append(rent(rng, rng.choice(cand)))
        elif a == "mod" and index:
            i = rng.randrange(len(index))
            index[i] = rent(rng, index[i][0])
        elif index:
            index.pop(rng.randrange(len(index)))
    wt = [list(e) for e in index]
    k = rng.randrange(0, 3) if bucket not in ("clean", "calm") else 0
    if bucket == "unstaged":
        k = rng.randrange(1, 3)
    for _ in range(k):
        if wt:
            i = rng.randrange(len(wt))
            if rng.random() < 0.3:
                wt.pop(i)
            else:
                wt[i] = rent(rng, wt[i][0])
    for _ in range(rng.randrange(0, 2)):
        cand = [p for p in PATHS if p not in [e[0] for e in wt] and p not in [e[0] for e in index]]
        if cand:
            wt.append(rent(rng, rng.choice(cand)))
    return {"bucket": bucket, "commits": [{"tree": norm(cm["tree"]), "parents": cm["parents"]} for cm in commits], "nloc": nloc,
            "refs": sorted(refs), "head": head, "index": norm(index), "wt": norm(wt),
            "user": rng.random() < (0.5 if bucket in ("commit", "errors") else 0.9), "ops": []}


def head_commit_of(c):
    h = c["head"]
    return h[1] if h[0] == "det" else dict((a, b) for a, b in c["refs"]).get(h[1])


def op_restore(rng, c, errors):
    ipaths = [e[0] for e in c["index"]]
    hc = head_commit_of(c)
    hpaths = [e[0] for e in c["commits"][hc]["tree"]] if hc is not None and 0 <= hc < len(c["commits"]) else []
    pool = sorted(set(ipaths + hpaths + [e[0] for e in c["wt"]])) or PATHS
    files = rng.sample(pool, min(len(pool), rng.randrange(1, 4)))
    if rng.random() < 0.2:
        files.append(rng.choice(PATHS))
    o = {"op": "restore", "staged": True, "worktree": rng.random() < 0.5, "files": sorted(set(files))}
    if errors:
        r = rng.random()
        if r < 0.4:
            o["files"] = []
        elif r < 0.8:
            o["staged"] = False
    return o


def op_add(rng, c, errors):
    r = rng.random()
    if errors and r < 0.3:
        return {"op": "addbad"}
    if errors and r < 0.8:
        # a path that is neither in the worktree nor in the index
        cand = [p for p in PATHS + ["nosuch", "d/nosuch"] if p not in [e[0] for e in c["wt"]] and p not in [e[0] for e in c["index"]]]
        return {"op": "add", "path": rng.choice(cand or ["nosuch"])}
    if r < 0.25:
        return {"op": "addall"}
    if r < 0.45:
        return {"op": "add", "path": rng.choice(DIRS)}
    pool = sorted(set([e[0] for e in c["wt"]] + [e[0] for e in c["index"]])) or PATHS
    return {"op": "add", "path": rng.choice(pool)}


def op_commit(rng, c, errors):
    o = {"op": "commit", "all": rng.random() < 0.35, "allow_empty": rng.random() < 0.2, "author": rng.random() < 0.5,
         "amend": rng.random() < 0.15}
    if errors and rng.random() < 0.3:
        o["amend"] = True
    if errors and rng.random() < 0.2:
        o["all"] = o["amend"] = True
    elif o["all"] and o["amend"]:
        o["amend"] = False
    if errors and rng.random() < 0.3:
        o["author"] = False
    return o


def op_merge(rng, c, errors):
    ncom, nloc = len(c["commits"]), c["nloc"]
    o = {"op": "merge", "target": rng.randrange(nloc), "ff": True}
    hc = head_commit_of(c)
    if hc is not None and 0 <= hc < ncom and rng.random() < 0.5:
        desc = [i for i in range(nloc) if hc in ancestors(c["commits"], i)]
        if desc:
            o["target"] = rng.choice(desc)
    if errors:
        r = rng.random()
        if r < 0.3:
            o["ff"] = False
        elif r < 0.6:
            o["target"] = ncom + 7
    return o


def op_pull(rng, c, errors):
    ncom = len(c["commits"])
    hc = head_commit_of(c)
    tgt = rng.randrange(ncom)
    if hc is not None and 0 <= hc < ncom and rng.random() < 0.6:
        desc = [i for i in range(ncom) if hc in ancestors(c["commits"], i)]
        tgt = rng.choice(desc)
    rrefs = [["refs/heads/master", tgt]]
    for b in ["refs/heads/other", "refs/heads/topic"]:
        if rng.random() < 0.4:
            rrefs.append([b, rng.randrange(ncom)])
    o = {"op": "pull", "conf": True, "reach": True, "rrefs": sorted(rrefs), "rhead": "refs/heads/master", "refname": ""}
    if not errors and hc is not None and 0 <= hc < ncom and rng.random() < 0.12:
        # nothing new: the tracking references already hold what the remote advertises, which HEAD contains
        tgt = rng.choice(sorted(ancestors(c["commits"], hc)))
        o["rrefs"] = [["refs/heads/master", tgt]]
        c["refs"] = sorted([r for r in c["refs"] if r[0] != "refs/remotes/origin/master"] + [["refs/remotes/origin/master", tgt]])
        return o
    r = rng.random()
    if r < 0.15 and len(rrefs) > 1:
        o["rhead"] = rrefs[1][0]
    elif r < 0.3:
        o["refname"] = rng.choice(rrefs)[0]
    if errors:
        r = rng.random()
        if r < 0.2:
            o["conf"] = False
        elif r < 0.4:
            o["reach"] = False
        elif r < 0.55:
            o["rrefs"] = []
        elif r < 0.7:
            o["refname"] = "refs/heads/nosuch"
        elif r < 0.85:
            o["rhead"] = "refs/heads/nosuch"
    return o


def rand_edit(rng, c):
    if rng.random() < 0.3 and c["wt"]:
        return {"op": "rm", "path": rng.choice(c["wt"])[0]}
    e = rent(rng, rng.choice(PATHS))
    return {"op": "write", "path": e[0], "kind": e[1], "content": e[2]}


OPGEN = {"restore": op_restore, "add": op_add, "commit": op_commit, "merge": op_merge, "pull": op_pull}


def gen_case(rng, bucket, calm=False):
    """bucket: <op> | <op>-err | unstaged (pull / commit on a dirty worktree) | random;
    calm: mostly clean repositories, so that the main op usually goes through (fault suite)"""
    kind, errors = bucket, False
    repo_bucket = kind
    if bucket.endswith("-err"):
        kind, errors = bucket[:-4], True
        repo_bucket = kind
        if rng.random() < 0.5:
            # the refusal comes from the repository (unborn / dangling HEAD, HEAD on a tag), the options are in order
            repo_bucket, errors = "errors", rng.random() < 0.2
    if bucket == "unstaged":
        kind = rng.choice(["pull", "pull", "commit", "restore"])
        repo_bucket = "unstaged"
    if bucket == "random":
        kind = rng.choice(list(OPGEN))
    if kind == "pull" and repo_bucket not in ("errors", "unstaged"):
        repo_bucket = "pull" if rng.random() < 0.7 else "clean"
    if calm and kind in ("pull", "merge") and rng.random() < 0.7:
        repo_bucket = "calm"
    c = gen_repo(rng, repo_bucket)
    c["bucket"] = bucket
    if bucket == "commit-all-empty":
        # the index holds a staged change, the worktree is back at HEAD's version: `commit -a` finds nothing to commit
        hc = head_commit_of(c)
        ht = c["commits"][hc]["tree"] if hc is not None and 0 <= hc < len(c["commits"]) else []
        c["wt"] = [list(e) for e in ht]
        c["index"] = norm([rent(rng, e[0]) if rng.random() < 0.5 else list(e) for e in ht])
        c["user"] = True
        c["ops"] = [{"op": "commit", "all": True, "allow_empty": False, "author": rng.random() < 0.5, "amend": False}]
        return c
    ops = []
    if rng.random() < 0.15:
        ops.append(rand_edit(rng, c))
    ops.append(OPGEN[kind](rng, c, errors))
    if rng.random() < 0.3:
        k2 = rng.choice(list(OPGEN))
        o2 = OPGEN[k2](rng, c, rng.random() < 0.3)
        if not (k2 == "merge" and any(o["op"] == "pull" for o in ops)):
            ops.append(o2)
    c["ops"] = ops
    if not df_free(c):
        c["ops"] = [o for o in ops if o["op"] not in ("write", "rm")]
    return c


# ------------------------------------------------------------------ oracles

SNAP_KEYS = ("head", "refs", "raw", "index", "wt", "stray")


def local_view(snap):
    s = dict(snap)
    s["refs"] = [r for r in (snap.get("refs") or []) if not str(r[0]).startswith("refs/remotes/")]
    return s


def snap_diff(pre, post):
    a, b = local_view(pre), local_view(post)
    return [k for k in SNAP_KEYS if a.get(k) != b.get(k)]


def steps_of(case, reply):
    ex = (reply or {}).get("extra") or {}
    steps = ex.get("steps") or []
    res = []
    for i, o in enumerate(case["ops"]):
        if i + 1 >= len(steps):
            break
        res.append((o, steps[i]["snap"], steps[i + 1]))
    return res


def refusal_class(op, res, d, pre):
    """narrow classes of the refusals that do change something"""
    k = op["op"]
    if k == "commit" and op.get("all") and d == ["index"] and res in ("empty_commit", "object_not_found", "ref_not_found"):
        return "commit-all-index-stored-before-refusal"
    if k == "pull" and res == "unstaged":
        return "pull-branch-moved-before-unstaged-check"
    if k == "pull" and res == "other" and pre["head"][0] == "sym" and not str(pre["head"][1]).startswith("refs/heads/"):
        return "pull-head-not-a-branch"
    return "other"


class Ops(Suite):
    name = "ops"
    go_cmd = "c29ops"
    coq_imports = COQ_IMPORTS
    coq_chunk = 60
    quick_n = 170
    thorough_n = 1500
    buckets = [(3, "restore"), (2, "restore-err"), (3, "add"), (3, "add-err"), (4, "commit"), (3, "commit-err"),
               (2, "commit-all-empty"), (3, "merge"), (3, "merge-err"), (5, "pull"), (4, "pull-err"), (4, "unstaged"), (2, "random")]

    def gen(self, rng, n, tier):
        return [gen_case(rng, pick_weighted(rng, self.buckets)) for _ in range(n)]

    def model_expr(self, c):
        return model_expr(c)

    def nontrivial(self, c):
        return any(o["op"] in PORCELAIN for o in c["ops"]) and bool(c["commits"])

    def oracle(self, ctx, cases, impl, model):
        fails = {}
        self.refusals = 0
        self.by_op = {}
        for c in cases:
            r = impl.get(c["id"])
            if r is None or not (r.get("extra") or {}).get("steps"):
                fails[c["id"]] = "other|no reply from the implementation"
                continue
            for k, (op, pre, st) in enumerate(steps_of(c, r)):
                if op["op"] not in PORCELAIN or st["res"] in ("ok", "init"):
                    continue
                self.refusals += 1
                key = "%s/%s" % (op["op"], st["res"])
                self.by_op[key] = self.by_op.get(key, 0) + 1
                d = snap_diff(pre, st["snap"])
                if not d:
                    continue
                cls = refusal_class(op, st["res"], d, pre)
                fails[c["id"]] = "%s|op %d %s refused (%s) but %s changed: refs %s -> %s, index %s -> %s" % (
                    cls, k, json.dumps(op), st["res"], d, pre["refs"], st["snap"]["refs"], pre["index"], st["snap"]["index"])
                break
        return fails

    def finding_class(self, case, reason, reply):
        cls = reason.split("|", 1)[0]
        return None if cls == "other" else cls

    def extra(self, ctx, cases, impl, model):
        return {"refused_ops": getattr(self, "refusals", 0), "refusals_by_op": getattr(self, "by_op", {})}


# ------------------------------------------------------------------ injected faults

def parse_out(text):
    """canonical observable text -> nested python lists of atoms"""
    toks = text.split()
    pos = [0]

    def item():
        t = toks[pos[0]]
        pos[0] += 1
        if t == "(":
            l = []
            while toks[pos[0]] != ")":
                l.append(item())
            pos[0] += 1
            return l
        return t
    return item()


def unx(a):
    return bytes.fromhex(a[1:]).decode("utf-8", "replace")


def model_state(snap):
    """parsed xsnap -> {"head", "refs", "index", "wt"} in the shape of the harness snapshots (without remote-tracking refs)"""
    h = snap[0]
    head = ["sym", unx(h[1])] if h[0] == "sym" else ["det", int(h[1])]
    refs = {unx(r[0]): int(r[1]) for r in snap[1]}
    return {"head": head, "refs": refs, "index": {unx(e[0]): (e[1], unx(e[2])) for e in snap[2]},
            "wt": {unx(e[0]): (e[1], unx(e[2])) for e in snap[3]}}


def impl_state(snap):
    return {"head": list(snap["head"][:2]), "refs": {r[0]: r[1] for r in snap.get("refs") or []},
            "index": {e[0]: (e[1], e[2]) for e in snap.get("index") or []},
            "wt": {e[0]: (e[1], e[2]) for e in snap.get("wt") or []}}


def drop_remote(st):
    st = dict(st)
    st["refs"] = {n: c for n, c in st["refs"].items() if not n.startswith("refs/remotes/")}
    return st


def apply_effect(st, f):
    st = {"head": list(st["head"]), "refs": dict(st["refs"]), "index": dict(st["index"]), "wt": dict(st["wt"])}
    k = f[0]
    if k == "setref":
        st["refs"][unx(f[1])] = int(f[2])
    elif k == "sethead":
        st["head"] = ["det", int(f[1])]
    elif k == "setindex":
        st["index"] = {unx(e[0]): (e[1], unx(e[2])) for e in f[1]}
    elif k == "write":
        st["wt"][unx(f[1])] = (f[2], unx(f[3]))
    elif k == "remove":
        st["wt"].pop(unx(f[1]), None)
    return st


def reachable_by_fault(pre, effs, post):
    """is `post` a state the model's stores can leave behind: a prefix of the effect list, where inside a run of
    worktree-file effects (whose order the merkletrie walk decides) any subset of the paths may be done or half done.
    Returns None (not reachable), "final" (all stores done) or "prefix"."""
    post = drop_remote(post)
    cur = pre
    i, n = 0, len(effs)
    while i < n:
        if drop_remote(cur) == post:
            return "prefix"
        if effs[i][0] in ("write", "remove"):
            j = i
            while j < n and effs[j][0] in ("write", "remove"):
                j += 1
            group = effs[i:j]
            opts = {}
            tmp = cur
            for f in group:
                p = unx(f[1])
                opts.setdefault(p, [cur["wt"].get(p)])
                tmp = apply_effect(tmp, f)
                opts[p].append(tmp["wt"].get(p))
            c0 = drop_remote(cur)
            if (post["head"] == c0["head"] and post["refs"] == c0["refs"] and post["index"] == c0["index"]
                    and set(post["wt"]) | set(c0["wt"]) <= set(opts) | (set(post["wt"]) & set(c0["wt"]))
                    and all(post["wt"].get(p) == c0["wt"].get(p) for p in set(post["wt"]) | set(c0["wt"]) if p not in opts)
                    and all(post["wt"].get(p) in v for p, v in opts.items())):
                return "prefix"
            cur = tmp
            i = j
            continue
        cur = apply_effect(cur, effs[i])
        i += 1
    if drop_remote(cur) == post:
        return "final"
    return None


def call_kind(call):
    """'Write .git/refs/heads/master' -> (method, area)"""
    m, _, p = (call or "").partition(" ")
    if p.startswith(".git/refs/") or p == ".git/HEAD" or p.startswith(".git/packed-refs"):
        area = "ref"
    elif p.startswith(".git/index"):
        area = "index"
    elif p.startswith(".git/objects"):
        area = "objects"
    elif p.startswith(".git/") or p == ".git":
        area = "dotgit"
    else:
        area = "worktree"
    return m, area


PARTIAL = {"restore": "fault-restore-partial", "commit": "fault-commit-all-partial", "pull": "fault-pull-partial"}


def fault_class(op, run, reach):
    """narrow classes of the refusals under an injected fault that leave a changed repository.
    reach: what the model's store list says about the state left behind (None / "prefix" / "final")"""
    d = set(run["diff"])
    m, area = call_kind(run["call"])
    if m == "Write":
        # files are written in place: the failing (torn) write leaves a partial file
        if area == "ref" and d & {"refs", "raw", "head"}:
            return "fault-ref-write-torn"
        if area == "index" and "index" in d:
            return "fault-index-write-torn"
        if area == "worktree" and "wt" in d:
            return "fault-worktree-write-torn"
    if "stray" in d:
        return "other"
    if reach == "final":
        return "fault-error-after-last-store"
    if reach == "prefix":
        k = op["op"]
        if k == "commit" and not op.get("all"):
            return "other"
        return PARTIAL.get(k, "other")
    return "other"


class Faults(Suite):
    name = "opsfault"
    go_cmd = "c29ops"
    coq_imports = COQ_IMPORTS
    quick_n = 12
    thorough_n = 60
    buckets = [(3, "restore"), (2, "add"), (4, "commit"), (2, "merge"), (4, "pull"), (1, "commit-all-empty")]

    def gen(self, rng, n, tier):
        out = []
        while len(out) < n:
            c = gen_case(rng, pick_weighted(rng, self.buckets), calm=True)
            ops = c["ops"]
            last = max([i for i, o in enumerate(ops) if o["op"] in PORCELAIN] or [-1])
            if last < 0:
                continue
            c["ops"] = ops[:last + 1]
            if not in_model(c):
                continue
            c["fault"] = True
            if tier == "quick":
                c["maxk"] = 90
                c["koff"] = rng.randrange(1000)
            out.append(c)
        return out

    def nontrivial(self, c):
        return bool(c["ops"])

    def model_expr(self, c):
        return model_expr(c)

    def effects_expr(self, c):
        head = "HSym %s" % hx(c["head"][1]) if c["head"][0] == "sym" else "HDet %s" % coq_Z(c["head"][1])
        st = "(mkR [%s] %s (%s) %s %s %s)" % (
            "; ".join("mkCmt %s [%s]" % (coq_fmap(cm["tree"]), "; ".join(coq_Z(p) for p in cm.get("parents", []))) for cm in c["commits"]),
            coq_refs(c["refs"]), head, coq_fmap(c["index"]), coq_fmap(c["wt"]), coq_bool(c.get("user", False)))
        return "c29ops_effects %s [%s] (%s)" % (st, "; ".join(coq_op(o) for o in c["ops"][:-1]), coq_op(c["ops"][-1]))

    def oracle(self, ctx, cases, impl, model):
        fails = {}
        self.runs = self.refusals = self.changed = self.swallowed = 0
        self.classes = {}
        self.reported = {}
        self.others = []
        self.model_bad = []
        todo = [c for c in cases if in_model(c)]
        outs = ctx.coq_eval(COQ_IMPORTS, [self.effects_expr(c) for c in todo], chunk=8) if todo else []
        effs = {c["id"]: (parse_out(o) if o else None) for c, o in zip(todo, outs)}
        for c in cases:
            r = impl.get(c["id"])
            ex = (r or {}).get("extra") or {}
            if "runs" not in ex:
                fails[c["id"]] = "other|no reply from the implementation"
                continue
            op = c["ops"][-1]
            mo = effs.get(c["id"])
            pre_m = model_state(mo[0]) if mo else None
            if mo:
                # the undisturbed run must be the model's: same state before, same result class
                base_ok = (ex["base"]["res"] == "ok") == (mo[1] == ["ok"])
                if drop_remote(pre_m) != drop_remote(impl_state(ex["pre"])) or not base_ok:
                    self.model_bad.append(c["id"])
                    mo = None
            worst = None
            seen = {}
            for run in ex["runs"]:
                self.runs += 1
                if run["res"] == "ok":
                    self.swallowed += 1
                    continue
                self.refusals += 1
                if run["res"] == "panic":
                    worst = ("other", run)
                    break
                if not run["diff"]:
                    continue
                self.changed += 1
                if mo and run.get("snap"):
                    reach = reachable_by_fault(pre_m, mo[2], impl_state(run["snap"]))
                else:
                    # no model for this case (or the undisturbed run already differs from it, which the impl-vs-model
                    # comparison reports): classify by the kind of operation alone
                    reach = "prefix" if op["op"] in ("restore", "pull") or (op["op"] == "commit" and op.get("all")) else "final"
                if run["res"] == ex["base"]["res"] and run["diff"] == ex["base"]["diff"]:
                    # the undisturbed run is itself a refusal that changes something (a finding of the ops suite)
                    cls = refusal_class(op, run["res"], run["diff"], ex["pre"])
                else:
                    cls = fault_class(op, run, reach)
                if cls == "other":
                    self.others.append((c["id"], run["k"], run["call"], run["res"], run["diff"], reach))
                self.classes[cls] = self.classes.get(cls, 0) + 1
                seen.setdefault(cls, run)
            if worst is None and seen:
                # one class is reported per case: an unknown one if there is any, otherwise the one reported least so far
                # (ties: the classes only one kind of operation can show first)
                order = ["other", "fault-restore-partial", "fault-commit-all-partial", "fault-pull-partial", "fault-worktree-write-torn",
                         "fault-index-write-torn", "fault-error-after-last-store", "fault-ref-write-torn"]
                cls = min(seen, key=lambda k: (k != "other", k != c.get("focus"), self.reported.get(k, 0), order.index(k) if k in order else 99))
                worst = (cls, seen[cls])
            if worst:
                cls, run = worst
                self.reported[cls] = self.reported.get(cls, 0) + 1
                fails[c["id"]] = "%s|%s with call %d failing (%s) returned %s but %s changed" % (
                    cls, json.dumps(op), run["k"], run["call"], run["res"], run["diff"])
        return fails

    def finding_class(self, case, reason, reply):
        cls = reason.split("|", 1)[0]
        return None if cls == "other" else cls

    def extra(self, ctx, cases, impl, model):
        return {"fault_runs": getattr(self, "runs", 0), "fault_refusals": getattr(self, "refusals", 0),
                "fault_swallowed": getattr(self, "swallowed", 0),
                "fault_refusals_with_change": getattr(self, "changed", 0), "fault_classes": getattr(self, "classes", {}),
                "cases_where_model_and_undisturbed_run_differ": getattr(self, "model_bad", [])}


SUITES_OPS = [Ops(), Faults()]
