"""C52 Reflog entries interoperate with git (DESIGN.md §4.C52)."""
import os
import re
import shutil
import subprocess
import tempfile

from vf import core
from vf.core import Suite, coq_hex, coq_Z
from vf.gen import rbytes, rlen, pick_weighted

ID = "C52"
THEOREMS = ["C52_roundtrip", "C52_roundtrip_file", "C52_git_reads_ours", "C52_git_reads_ours_file",
            "C52_encode_is_git_write", "C52_we_read_git", "C52_we_read_git_file", "C52_normalize_git",
            "C52_unsanitised_ident_refuted"]
MODEL_FILES = ["Reflog.v"]
MODELLED = ("plumbing/format/reflog/reflog.go: Encode, normalizeMessage/isGitSpace, Decoder.Next/Decode, decodeLine, "
            "decodeTimestamp, with hex.EncodeToString/DecodeString, plumbing.IsHash/NewHash, strconv.ParseInt(10,64), "
            "strconv.Atoi on 2 bytes, bytes.Fields (unicode.IsSpace through UTF-8), bytes.Trim, fmt %d/%02d "
            "(Model/Reflog.v); spec: git's copy_reflog_msg, log_ref_write_fd, show_one_reflog_ent, split_ident_line, "
            "show_date(raw) (Spec/ReflogGit.v); not modelled: storage/filesystem ReflogStorage file plumbing "
            "(dotgit.ReflogWriter/Reader, append mode, locking), bufio buffering")
TRUSTED = [
    "C-impl: reflog.Encode / reflog.Decode (harness/cmd/c52) vs Model/Reflog.encode / decode on every case",
    "C-git: Spec/ReflogGit.git_read vs `git log -g --date=raw` + `git fsck` on every decodable file of the run; "
    "git_copy_reflog_msg vs `git update-ref -m` on a sample of messages",
]
ASSUMPTIONS = [
    "git's reflog reader/writer behave as transcribed in Spec/ReflogGit.v (validated against git 2.39.5 on each run)",
    "entries are NUL-free (C strings on git's side); timestamps are in [1, 2^63) for the git direction "
    "(git itself treats a reflog line with timestamp 0 as corrupt)",
]
RULE = ("case = an entry to encode (buckets: plain, message white space incl. VT/FF/NBSP, zones incl. half hours and "
        "out-of-range, odd identities, time grid, sha256 ids) or a reflog file to decode (git-format lines, histories "
        "written by git itself, malformed mutations); non-trivial = anything but the plain bucket's shape; distinct by content")
LEVEL_NOTE = ("three small go-git defects were repaired (fix: commits) so that the theorems are full: message "
              "normalisation, TAB inside identities, non-ASCII spaces around names; unsanitised identities in Encode "
              "remain a known finding")

GITENV = {
    "GIT_CONFIG_NOSYSTEM": "1", "GIT_CONFIG_GLOBAL": "/dev/null", "LC_ALL": "C", "TZ": "UTC",
    "GIT_AUTHOR_NAME": "A", "GIT_AUTHOR_EMAIL": "a@x", "GIT_AUTHOR_DATE": "@1000000000 +0000",
    "GIT_COMMITTER_NAME": "C", "GIT_COMMITTER_EMAIL": "c@x", "GIT_COMMITTER_DATE": "@1000000000 +0000",
    "PATH": os.environ.get("PATH", "/usr/bin:/bin"),
}
ZERO = "00" * 20


def git(cwd, *args, env=None, input=None, check=True):
    e = dict(GITENV)
    e["HOME"] = cwd
    if env:
        e.update(env)
    p = subprocess.run(["/usr/bin/git"] + list(args), cwd=cwd, env=e, input=input,
                       stdout=subprocess.PIPE, stderr=subprocess.PIPE, timeout=120)
    if check and p.returncode != 0:
        raise RuntimeError("git %r failed: %s" % (args, p.stderr[-500:]))
    return p


def make_pool(d):
    """a deterministic repository with 4 commits; returns their ids (hex), oldest first"""
    os.makedirs(d, exist_ok=True)
    git(d, "init", "-q", "-b", "main", ".")
    ids = []
    for i in range(4):
        with open(os.path.join(d, "f"), "w") as f:
            f.write("%d\n" % i)
        git(d, "add", "f")
        git(d, "commit", "-q", "-m", "c%d" % i)
        ids.append(git(d, "rev-parse", "HEAD").stdout.decode().strip())
    return ids


_POOL = None


def pool_ids():
    global _POOL
    if _POOL is None:
        d = tempfile.mkdtemp(prefix="verif-C52-pool-")
        try:
            _POOL = make_pool(d)
        finally:
            shutil.rmtree(d, ignore_errors=True)
    return _POOL


# ---- python transcriptions used by generators / expected values (validated by the runs themselves)
def gitnorm(m):
    """refs.c copy_reflog_msg on a NUL-free message"""
    out, was = bytearray(), True
    for c in m:
        sp = c in b" \t\n\r"
        if was and sp:
            continue
        was = sp
        out.append(32 if sp else c)
    return bytes(out).rstrip(b" \t\n\r")


def crud(c):
    return c <= 32 or c in b".,:;<>\"\\'"


def sanitize(s):
    """ident.c strbuf_addstr_without_crud"""
    a, b = 0, len(s)
    while a < b and crud(s[a]):
        a += 1
    while b > a and crud(s[b - 1]):
        b -= 1
    return bytes(c for c in s[a:b] if c not in b"\n<>")


def tz_text(off):
    a = abs(off)
    return ("-" if off < 0 else "+") + "%02d%02d" % (a // 3600, a % 3600 // 60)


def zone_ok(off):
    return off % 60 == 0 and abs(off) < 100 * 3600


def git_line(old, new, name, email, ts, tz, msg):
    """log_ref_write_fd: tz is the +hhmm text"""
    l = b"%s %s %s <%s> %d %s" % (old.encode(), new.encode(), name, email, ts, tz.encode())
    if msg:
        l += b"\t" + msg
    return l + b"\n"


def git_listing(d, files):
    """files: {key: reflog bytes}.  -> {key: ([(new, msg, name, email, ts, tz)] oldest first, set(missing oids))}
    as listed by `git log -g --date=raw` and reported by `git fsck` in repository d (pool commits present)"""
    head = git(d, "rev-parse", "HEAD").stdout.decode().strip()
    keys = sorted(files)
    logdir = os.path.join(d, ".git", "logs", "refs", "heads", "v")
    shutil.rmtree(logdir, ignore_errors=True)
    os.makedirs(logdir)
    packed = ["# pack-refs with: peeled fully-peeled sorted \n"]
    names = {}
    for n, k in enumerate(keys):
        nm = "c%06d" % n
        names["refs/heads/v/" + nm] = k
        with open(os.path.join(logdir, nm), "wb") as f:
            f.write(files[k])
        packed.append("%s refs/heads/v/%s\n" % (head, nm))
    with open(os.path.join(d, ".git", "packed-refs"), "w") as f:
        f.write("".join(packed))
    res = {k: ([], set()) for k in keys}
    if not keys:
        return res
    p = git(d, "log", "-g", "-z", "--format=%H%x00%gs%x00%gn%x00%ge%x00%gD", "--date=raw", "--stdin",
            input="".join(r + "\n" for r in sorted(names)).encode())
    parts = p.stdout.split(b"\0")
    if parts and parts[-1] == b"":
        parts.pop()
    assert len(parts) % 5 == 0, "unexpected git log output"
    for i in range(0, len(parts), 5):
        h, gs, gn, ge, gd = parts[i:i + 5]
        m = re.match(rb"^(refs/heads/v/c\d+)@\{(\d+) ([+-]\d+)\}$", gd)
        assert m, gd
        k = names[m.group(1).decode()]
        res[k][0].insert(0, (h.decode(), gs, gn, ge, int(m.group(2)), m.group(3).decode()))
    p = git(d, "fsck", "--no-dangling", "--no-progress", check=False)
    for line in (p.stdout + p.stderr).splitlines():
        m = re.match(rb"^error: (refs/heads/v/c\d+): invalid reflog entry ([0-9a-f]+)$", line)
        if m and m.group(1).decode() in names:
            res[names[m.group(1).decode()]][1].add(m.group(2).decode())
    return res


def parse_entries(out):
    """( ok ( xOLD xNEW xNAME xEMAIL secs off xMSG ) ... ) -> list of tuples, or None for an error"""
    if not out.startswith("( ok"):
        return None
    res = []
    for m in re.finditer(r"\( x([0-9a-f]*) x([0-9a-f]*) x([0-9a-f]*) x([0-9a-f]*) (-?\d+) (-?\d+) x([0-9a-f]*) \)", out):
        res.append((m.group(1), m.group(2), bytes.fromhex(m.group(3)), bytes.fromhex(m.group(4)),
                    int(m.group(5)), int(m.group(6)), bytes.fromhex(m.group(7))))
    return res


# ---- generators
WS = [b" ", b"\t", b"\n", b"\r", b"\v", b"\f", b"\xc2\xa0", b"\xc2\x85", b"\xe2\x80\x83", b"\xe3\x80\x80", b"  ", b"\r\n"]
WORDS = [b"commit:", b"x", b"merge", b"checkout: moving from a to b", b"\xc3\xa9t\xc3\xa9", b">", b"<", b"a>b", b"\xff\xfe",
         b"\xe2\x80", b"\xc2", b"reset: moving to HEAD~1", b"0", b"+0000"]
NAMES = [b"A U Thor", b"a", b"", b"J. R.", b"\xc3\x89ric", b"x\xc2\xa0", b"\xc2\xa0x", b"a\tb", b"a  b", b"O'Neil", b"x\xe2\x80\x83",
         b"\xe3\x80\x80y", b"\x7f", b"a\x0bb", b"name with, punct; inside", b"\xff", b"9"]
EMAILS = [b"a@example.com", b"", b"e", b"a b@c", b"e\tf", b"\xc3\xa9@x", b"x@y.", b"@", b"a\xc2\xa0"]
BADNAMES = [b"a<b", b"a>b", b"a\nb", b" a", b"a ", b"\ta", b"<", b">", b"a <x> b", b"\n", b"a\r"]
BADEMAILS = [b"e<f", b"e>f", b"e\nf", b"<e>", b">"]
OFFS = [0, 3600, -3600, 19800, -19800, 20700, 45900, -34200, 50400, -43200, 86340, 99 * 3600 + 59 * 60, -(99 * 3600 + 59 * 60), 60, -60]
BADOFFS = [100 * 3600, -100 * 3600, 1, -1, 3601, 59, 360000 + 60, 10 ** 7, -(10 ** 7), 2 ** 31 - 1]
TIMES = [1, 2, 9, 10, 99, 1234567890, 1700000000, 2 ** 31 - 1, 2 ** 31, 2 ** 32 - 1, 2 ** 32, 2 ** 40, 2 ** 62, 2 ** 63 - 1, 253402300800]
BADTIMES = [0, -1, -5, -(2 ** 31), -(2 ** 63)]


def rmsg(rng):
    parts = []
    for _ in range(rng.randrange(0, 6)):
        if rng.random() < 0.5:
            parts.append(rng.choice(WS))
        parts.append(rng.choice(WORDS) if rng.random() < 0.7 else rbytes(rng, rlen(rng, 4, 12), b"ab \t\n\r\x0b\x0c\xc2\xa0\x85z"))
        if rng.random() < 0.4:
            parts.append(rng.choice(WS))
    return b"".join(parts)


def roid(rng, n=20):
    return rbytes(rng, n).hex()


def enc_case(rng, bucket):
    pool = pool_ids()
    c = {"op": "enc", "bucket": bucket, "old": rng.choice([ZERO, roid(rng), rng.choice(pool)]), "new": rng.choice(pool),
         "name": rng.choice(NAMES[:2]).hex(), "email": EMAILS[0].hex(), "secs": str(rng.choice(TIMES[5:7])),
         "off": rng.choice(OFFS[:5]), "msg": rng.choice(WORDS[:4]).hex()}
    if bucket == "enc-msg":
        c["msg"] = rmsg(rng).hex()
    elif bucket == "enc-zone":
        c["off"] = rng.choice(OFFS) if rng.random() < 0.6 else rng.choice(BADOFFS + [rng.randrange(-400000, 400000)])
    elif bucket == "enc-ident":
        c["name"] = rng.choice(NAMES).hex()
        c["email"] = rng.choice(EMAILS).hex()
        c["msg"] = rmsg(rng).hex()
    elif bucket == "enc-badident":
        if rng.random() < 0.6:
            c["name"] = rng.choice(BADNAMES).hex()
        else:
            c["email"] = rng.choice(BADEMAILS).hex()
    elif bucket == "enc-time":
        c["secs"] = str(rng.choice(TIMES + BADTIMES + [rng.randrange(1, 2 ** 63)]))
        c["off"] = rng.choice(OFFS)
    elif bucket == "enc-sha256":
        c["old"], c["new"] = roid(rng, 32), roid(rng, 32)
    elif bucket == "enc-random":
        c.update(name=rng.choice(NAMES).hex(), email=rng.choice(EMAILS).hex(), msg=rmsg(rng).hex(),
                 secs=str(rng.choice(TIMES)), off=rng.choice(OFFS), old=roid(rng))
    return c


def gitfmt_line(rng):
    pool = pool_ids()
    name = sanitize(rng.choice(NAMES + BADNAMES))
    email = sanitize(rng.choice(EMAILS + BADEMAILS))
    hh, mm = rng.choice([(0, 0), (5, 30), (1, 0), (12, 0), (14, 0), (99, 59), (5, 45), (0, 1), (9, 30)])
    tz = rng.choice("+-") + "%02d%02d" % (hh, mm)
    msg = gitnorm(rmsg(rng)) if rng.random() < 0.8 else b""
    ts = rng.choice(TIMES)
    return git_line(rng.choice([ZERO, roid(rng), rng.choice(pool)]), rng.choice(pool), name, email, ts, tz, msg)


def mutate(rng, line):
    """one malformed / boundary variant of a valid line"""
    k = rng.randrange(14)
    b = bytearray(line)
    if k == 0 and len(b) > 1:
        del b[rng.randrange(len(b))]
    elif k == 1:
        b.insert(rng.randrange(len(b) + 1), rng.choice(b" \t<>\n+-0a\xc2\xa0\x0b"))
    elif k == 2:
        b[rng.randrange(len(b))] = rng.choice(b" \t<>\n+-0aG\x00\xff")
    elif k == 3:
        b = b[:rng.randrange(len(b))]
    elif k == 4:
        b = b[:-1]                                   # no final LF
    elif k == 5:
        b = bytearray(bytes(b).replace(b"\n", b"\r\n"))
    elif k == 6:
        b = bytearray(re.sub(rb" ([+-])(\d\d)(\d\d)", lambda m: b" " + rng.choice(
            [b"+-1-2", b"++1+2", b"+1e00", b"+053", b"+05300", b"0530", b"*0530", b"+ 530", b"-0000", b"+9999", b"+0060", b"-+5+9"]), bytes(b), count=1))
    elif k == 7:
        b = bytearray(re.sub(rb"> (\d+) ", lambda m: b"> " + rng.choice(
            [b"", b"+5", b"-5", b"0", b"00", b"007", b"9223372036854775807", b"9223372036854775808", b"-9223372036854775808",
             b"-9223372036854775809", b"18446744073709551616", b"1_0", b"0x10", b" 12", b"12 ", b"1\x0b", b"\xc2\xa012"]) + b" ", bytes(b), count=1))
    elif k == 8:
        b = bytearray(bytes(b).replace(b" <", rng.choice([b"<", b"  <", b" ", b" <<", b" \t<"]), 1))
    elif k == 9:
        b = bytearray(bytes(b).replace(b"> ", rng.choice([b">", b">  ", b">x", b">> ", b" ", b">\t"]), 1))
    elif k == 10:
        h = bytes(b[:40])
        b[:40] = rng.choice([h.upper(), h[:39] + b"g", h[:39], h + b"0", h + h[:24]])
    elif k == 11:
        h = bytes(b[41:81])
        b[41:81] = rng.choice([h.upper(), h[:39] + b"G", h[:38], h + h[:24], b""])
    elif k == 12:
        b = bytearray(b"\n" + bytes(b) + b"\n\n")
    else:
        b = bytearray(bytes(b).replace(b"\t", rng.choice([b"", b"\t\t", b" ", b"\t>\t"]), 1))
    return bytes(b)


def git_history(rng, tmp):
    """a reflog written by git itself during a small random history; returns (file bytes, git's listing)"""
    d = tempfile.mkdtemp(prefix="verif-C52-hist-", dir=tmp)
    try:
        pool = make_pool(d)
        ref = "refs/heads/h"
        for step in range(rng.randrange(1, 6)):
            hh, mm = rng.choice([(0, 0), (5, 30), (1, 0), (12, 0), (14, 0), (3, 45), (9, 30)])
            env = {"GIT_COMMITTER_NAME": rng.choice(NAMES + BADNAMES).decode("utf-8", "surrogateescape"),
                   "GIT_COMMITTER_EMAIL": rng.choice(EMAILS + BADEMAILS).decode("utf-8", "surrogateescape"),
                   "GIT_COMMITTER_DATE": "@%d %s%02d%02d" % (rng.choice(TIMES[:12]), rng.choice("+-"), hh, mm)}
            args = ["update-ref", "--create-reflog"]
            if rng.random() < 0.85:
                m = rmsg(rng).replace(b"\0", b"")
                args += ["-m", m.decode("utf-8", "surrogateescape")]
            args += [ref, rng.choice(pool)]
            git(d, *args, env=env, check=False)    # an empty ident name is refused by git: that step is skipped
        p = os.path.join(d, ".git", "logs", ref)
        data = open(p, "rb").read() if os.path.exists(p) else b""
        lst = []
        if data:
            q = git(d, "log", "-g", "-z", "--format=%H%x00%gs%x00%gn%x00%ge%x00%gD", "--date=raw", ref, check=False)
            parts = q.stdout.split(b"\0")
            if parts and parts[-1] == b"":
                parts.pop()
            for i in range(0, len(parts) - 4, 5):
                h, gs, gn, ge, gd = parts[i:i + 5]
                m = re.match(rb"^.*@\{(\d+) ([+-]\d+)\}$", gd)
                lst.insert(0, [h.decode(), gs.hex(), gn.hex(), ge.hex(), int(m.group(1)), m.group(2).decode()])
        return data, lst
    finally:
        shutil.rmtree(d, ignore_errors=True)


class Main(Suite):
    name = "main"
    go_cmd = "c52"
    coq_imports = "From GoGit Require Import Model.Reflog Spec.ReflogGit."
    quick_n = 300
    thorough_n = 3000

    def gen(self, rng, n, tier):
        cases = []
        buckets = [(2, "enc-plain"), (4, "enc-msg"), (3, "enc-zone"), (3, "enc-ident"), (2, "enc-badident"), (3, "enc-time"),
                   (1, "enc-sha256"), (3, "enc-random"), (5, "dec-gitfmt"), (6, "dec-malformed")]
        nhist = max(6, n // 25)
        tmp = tempfile.mkdtemp(prefix="verif-C52-gen-")
        try:
            for _ in range(nhist):
                data, lst = git_history(rng, tmp)
                cases.append({"op": "dec", "bucket": "dec-githist", "file": data.hex(), "git_listing": lst})
        finally:
            shutil.rmtree(tmp, ignore_errors=True)
        for _ in range(n - nhist):
            b = pick_weighted(rng, buckets)
            if b.startswith("enc"):
                cases.append(enc_case(rng, b))
            elif b == "dec-gitfmt":
                cases.append({"op": "dec", "bucket": b, "file": b"".join(gitfmt_line(rng) for _ in range(rng.randrange(1, 4))).hex()})
            else:
                lines = [gitfmt_line(rng) for _ in range(rng.randrange(1, 3))]
                i = rng.randrange(len(lines))
                lines[i] = mutate(rng, lines[i])
                cases.append({"op": "dec", "bucket": b, "file": b"".join(lines).hex()})
        return cases

    def model_expr(self, c):
        if c["op"] == "enc":
            return "c52_enc %s %s %s %s %s %s %s" % (
                '"%s"' % c["old"], '"%s"' % c["new"], '"%s"' % c["name"], '"%s"' % c["email"],
                coq_Z(int(c["secs"])), coq_Z(int(c["off"])), '"%s"' % c["msg"])
        return 'c52_dec "%s"' % c["file"]

    def nontrivial(self, c):
        return c["bucket"] != "enc-plain"

    def show(self, c):
        return {k: v for k, v in c.items() if k != "git_listing"}

    # ---- the property on the implementation
    def oracle(self, ctx, cases, impl, model):
        fails = {}
        pool = set(pool_ids())
        d = os.path.join(ctx.tmp, "oracle-%d" % len(os.listdir(ctx.tmp)))
        make_pool(d)
        files = {}
        lines = {}
        for c in cases:
            r = impl.get(c["id"])
            if r is None:
                continue
            if c["op"] == "enc":
                m = re.match(r"^\( ok x([0-9a-f]*) \)$", r["out"])
                if not m:
                    fails[c["id"]] = "Encode failed: %s" % r["out"]
                    continue
                lines[c["id"]] = bytes.fromhex(m.group(1))
                files[c["id"]] = lines[c["id"]]
            elif c["bucket"] == "dec-gitfmt":
                files[c["id"]] = bytes.fromhex(c["file"])
        listing = git_listing(d, files)
        self._listing = listing
        # round trip of our own lines through our own decoder
        rt_cases = [{"id": i, "op": "dec", "file": l.hex()} for i, l in sorted(lines.items())]
        rt = core.run_impl(self.go_cmd, rt_cases) if rt_cases else {}
        for c in cases:
            i = c["id"]
            if i in fails or impl.get(i) is None:
                continue
            if c["op"] == "enc":
                name, email, msg = (bytes.fromhex(c[k]) for k in ("name", "email", "msg"))
                secs, off = int(c["secs"]), int(c["off"])
                if b"\0" in name + email + msg or not zone_ok(off) or len(c["old"]) != len(c["new"]):
                    continue                                   # outside the domain of the line format
                want = (c["old"], c["new"], name, email, secs, off, gitnorm(msg))
                got = parse_entries((rt.get(i) or {}).get("out", ""))
                if got != [want]:
                    fails[i] = "go-git does not read back its own entry: wrote %r, decoded %r, expected %r" % (lines[i], got, want)
                    continue
                if len(c["old"]) == 40 and c["new"] in pool and secs > 0:
                    ents, missing = listing[i]
                    wantg = [(c["new"], gitnorm(msg), name, email, secs, tz_text(off))]
                    wantm = {c["old"]} - pool - {ZERO}
                    if ents != wantg or missing != wantm:
                        fails[i] = "git lists %r (unknown ids %r) for the entry go-git wrote as %r; expected %r (%r)" % (
                            ents, sorted(missing), lines[i], wantg, sorted(wantm))
            else:
                got = parse_entries(impl[i]["out"])
                if "git_listing" in c:
                    want = [(h, bytes.fromhex(gs), bytes.fromhex(gn), bytes.fromhex(ge), ts, tz) for h, gs, gn, ge, ts, tz in c["git_listing"]]
                    wantm = None
                elif i in listing:
                    want, wantm = listing[i]
                else:
                    continue
                if got is None:
                    fails[i] = "go-git cannot decode a reflog git wrote / lists as %r" % (want,)
                    continue
                gotg = [(n, m, nm, em, s, tz_text(o) if zone_ok(o) else "?%d" % o) for _, n, nm, em, s, o, m in got]
                wantg = [(h, gs, gn, ge, ts, tz) for h, gs, gn, ge, ts, tz in want]
                if gotg != wantg:
                    fails[i] = "go-git decodes %r, git lists %r" % (gotg, wantg)
                elif wantm is not None and ({o for o, *_ in got} - pool - {ZERO}) != wantm:
                    fails[i] = "old ids differ: go-git %r, git fsck %r" % (sorted({o for o, *_ in got}), sorted(wantm))
        return fails

    def finding_class(self, c, reason, reply):
        if c.get("op") == "enc":
            name, email = bytes.fromhex(c["name"]), bytes.fromhex(c["email"])
            if any(ch in name + email for ch in b"<>\n") or name.strip(b" \t\n\r") != name:
                return "ident-unsanitised"
        return None

    # ---- C-git: S (Spec/ReflogGit) against the git binary
    def extra(self, ctx, cases, impl, model):
        pool = set(pool_ids())
        d = os.path.join(ctx.tmp, "cgit-%d" % len(os.listdir(ctx.tmp)))
        make_pool(d)
        files = {}
        for c in cases:
            if c["op"] == "dec" and "git_listing" not in c:
                f = bytes.fromhex(c["file"])
            elif c["op"] == "enc" and impl.get(c["id"]) and impl[c["id"]]["out"].startswith("( ok x"):
                f = bytes.fromhex(impl[c["id"]]["out"][6:-2])
            else:
                continue
            if b"\0" in f or len(c.get("old", ZERO)) != 40:
                continue
            files[c["id"]] = f
        if ctx.tier == "quick":
            keep = sorted(files)[::max(1, len(files) // 150)]   # a spread sample; the thorough tier takes every file
            files = {k: files[k] for k in keep}
        listing = git_listing(d, files)
        ids = sorted(files)
        outs = ctx.coq_eval(self.coq_imports, ['c52_git_read "%s"' % files[i].hex() for i in ids])
        bad = 0
        for i, o in zip(ids, outs):
            ents = []
            for m in re.finditer(r"\( x([0-9a-f]*) x([0-9a-f]*) x([0-9a-f]*) x([0-9a-f]*) (\d+) (-?\d+) x([0-9a-f]*) \)", o or ""):
                ents.append((m.group(1), m.group(2), bytes.fromhex(m.group(3)), bytes.fromhex(m.group(4)), int(m.group(5)),
                             int(m.group(6)), bytes.fromhex(m.group(7))))
            want_list = [(n, msg, nm, em, ts, "%+05d" % tz) for _, n, nm, em, ts, tz, msg in ents if n in pool]
            want_missing = ({o_ for o_, *_ in ents} | {n for _, n, *_ in ents}) - pool - {ZERO}
            if o is None or (want_list, want_missing) != listing[i]:
                bad += 1
                ctx.notes.append("spec_mismatch git_read vs git on %s: S=%r git=%r" % (files[i].hex(), (want_list, sorted(want_missing)), listing[i]))
        # copy_reflog_msg against `git update-ref -m`
        msgs = []
        for c in cases:
            if c["op"] == "enc" and len(msgs) < 40:
                m = bytes.fromhex(c["msg"])
                if b"\0" not in m and m and m not in msgs:
                    msgs.append(m)
        mouts = ctx.coq_eval(self.coq_imports, ['c52_git_msg "%s"' % m.hex() for m in msgs])
        head = sorted(pool)[0]
        mbad = 0
        for k, (m, o) in enumerate(zip(msgs, mouts)):
            ref = "refs/heads/m%d" % k
            git(d, "update-ref", "--create-reflog", "-m", m.decode("utf-8", "surrogateescape"), ref, head)
            line = open(os.path.join(d, ".git", "logs", ref), "rb").read()
            got = line[:-1].split(b"\t", 1)[1] if b"\t" in line else b""
            if o != "x" + got.hex() or gitnorm(m) != got:
                mbad += 1
                ctx.notes.append("spec_mismatch copy_reflog_msg on %s: S=%s py=%s git=%s" % (m.hex(), o, gitnorm(m).hex(), got.hex()))
        return {"spec_vs_git_files": len(ids), "spec_msgs": len(msgs), "spec_mismatches": bad + mbad}


SUITES = [Main()]
