"""C50 Archives have git archive's content (DESIGN.md §4.C50)."""
import gzip
import hashlib
import io
import os
import re
import struct
import subprocess
import tarfile
import time
import zipfile
import zlib
from concurrent.futures import ThreadPoolExecutor

from vf.core import Suite, coq_list, coq_Z
from vf.gen import pick_weighted

ID = "C50"
THEOREMS = ["C50_tar_entries_eq", "C50_tar_entries_eq_filtered", "C50_archive_tar_eq", "C50_archive_tar_eq_sub", "C50_tar_modes", "C50_filter_file_agree",
            "C50_zip_files_partial", "C50_zip_refuted", "C50_empty_dir_refuted", "C50_filter_refuted"]
MODEL_FILES = ["Archive.v"]
MODELLED = ("internal/archive/archive.go: WriteArchive (format dispatch, HasInvalidPrefix), WriteTarArchive, WriteZipArchive "
            "(entry lists: names, kinds, modes via ApplyUmask/ApplyUmaskDir, link targets, contents, mtime, commit-id comment), "
            "MatchesPathFilter on literal filters, ResolveTreeish (ref / commit / tag / tree / ref:path kinds), the pre-order "
            "object.TreeWalker (Model/Archive.v); spec: git archive's entry list — lazy directory emission, literal pathspecs with "
            "per-pathspec existence check, tar/zip modes (Spec/GitArchive.v); not modelled: tar/zip/gzip byte encodings (stdlib "
            "writers; both outputs are parsed back), path.Match glob filters, pathutil.ValidTreePath refusals, io.Pipe plumbing")
TRUSTED = [
    "C-impl: Repository.Archive on an in-memory repository built from the case, listed with Go's archive/tar, archive/zip "
    "(harness/cmd/c50) vs Model/Archive.v on every case with literal filters",
    "C-git: Spec/GitArchive.v vs `git archive` listed with python tarfile/zipfile on every case of the run",
    "direct oracle: go-git's archive bytes and git's archive bytes, both listed with python tarfile/zipfile",
]
ASSUMPTIONS = [
    "git archive behaves as transcribed in Spec/GitArchive.v for literal pathspecs (validated against git 2.39.5 each run)",
    "trees contain no .gitattributes (export-ignore / export-subst are out of scope) and only names pathutil.ValidTreePath accepts",
    "prefixes with a '..' component or a leading '/' or '\\\\' are refused by go-git on purpose (HasInvalidPrefix); git accepts them",
]
RULE = ("case = nested tree (files, executables, symlinks, submodules, sub-directories, empty sub-trees, long / non-ASCII / "
        "glob-character names) x tree-ish kind x prefix x path filters x {tar, tar.gz, tgz, zip}; non-trivial = a tree with a "
        "sub-directory or a non-default request; distinct by content")

GITENV = {"GIT_CONFIG_NOSYSTEM": "1", "GIT_CONFIG_GLOBAL": "/dev/null", "LC_ALL": "C", "TZ": "UTC",
          "PATH": os.environ.get("PATH", "/usr/bin:/bin")}


# ---------------------------------------------------------------- git side: loose objects written directly
def obj_id(kind, data):
    return hashlib.sha1(kind.encode() + b" %d\0" % len(data) + data).hexdigest()


def write_obj(gitdir, kind, data):
    h = obj_id(kind, data)
    d = os.path.join(gitdir, "objects", h[:2])
    p = os.path.join(d, h[2:])
    if not os.path.exists(p):
        os.makedirs(d, exist_ok=True)
        with open(p, "wb") as f:
            f.write(zlib.compress(kind.encode() + b" %d\0" % len(data) + data, 1))
    return h


def build_tree(gitdir, ents):
    buf = b""
    for e in ents:
        name, k = bytes.fromhex(e["name"]), e["kind"]
        if k in ("file", "exec", "link"):
            h = write_obj(gitdir, "blob", bytes.fromhex(e["data"]))
            mode = {"file": b"100644", "exec": b"100755", "link": b"120000"}[k]
        elif k == "sub":
            h, mode = e["id"], b"160000"
        else:
            h, mode = build_tree(gitdir, e["entries"]), b"40000"
        buf += mode + b" " + name + b"\0" + bytes.fromhex(h)
    return write_obj(gitdir, "tree", buf)


def commit_bytes(root, c):
    return ("tree %s\nauthor A <a@x> %d +0000\ncommitter C <c@x> %d %s\n\nm\n" % (root, c["time"], c["time"], c["zone"])).encode()


def tag_bytes(ch, c):
    return ("object %s\ntype commit\ntag v1\ntagger T <t@x> %d +0000\n\nt\n" % (ch, c["time"])).encode()


def arg(b):
    return b.decode("utf-8", "surrogateescape")


def git_archive(repo, c, root, ch, th):
    t = c["treeish"]
    spec = {"branch": ch, "head": ch, "commit": ch, "tag": th, "tree": root}.get(t) or ch + ":" + arg(bytes.fromhex(t[4:]))
    fmt = c["format"] or "tar"
    a = ["/usr/bin/git", "archive", "--format=" + fmt]
    if c["prefix"]:
        a.append("--prefix=" + arg(bytes.fromhex(c["prefix"])))
    a += [spec, "--"]
    a += [arg(bytes.fromhex(p)) for p in c["paths"]]
    e = dict(GITENV)
    e["HOME"] = repo
    return subprocess.run(a, cwd=repo, env=e, stdout=subprocess.PIPE, stderr=subprocess.PIPE, timeout=120)


# ---------------------------------------------------------------- listings (python tarfile / zipfile)
def mt(t):
    return -1 if isinstance(t, (int, float)) and abs(time.time() - t) < 86400 else t


def list_tar(data):
    out = []
    gmtime = None
    # the pax global header (comment=<commit id>, mtime=<time beyond ustar>) is read by hand: tarfile refuses an
    # archive holding nothing else and does not apply a global mtime record
    if data[:17] == b"pax_global_header" and data[156:157] == b"g":
        size = int(data[124:135], 8)
        m = re.search(rb"comment=([0-9a-f]+)\n", data[512:512 + size])
        if m:
            out.append(("pax", m.group(1).decode()))
        m = re.search(rb" mtime=(\d+)\n", data[512:512 + size])
        if m:
            gmtime = int(m.group(1))
        data = data[512 + (size + 511) // 512 * 512:]
    if not data.strip(b"\0"):
        return out
    tf = tarfile.open(fileobj=io.BytesIO(data), mode="r:")
    for m in tf:
        if gmtime is not None and "mtime" not in m.pax_headers:
            m.mtime = gmtime
        n = m.name.encode("utf-8", "surrogateescape")
        if m.isdir():
            out.append(("dir", n.rstrip(b"/") + b"/", m.mode, mt(int(m.mtime))))
        elif m.issym():
            out.append(("link", n, m.mode, mt(int(m.mtime)), m.linkname.encode("utf-8", "surrogateescape")))
        elif m.isreg():
            out.append(("file", n, m.mode, mt(int(m.mtime)), tf.extractfile(m).read()))
        else:
            out.append(("other", n, m.type))
    return out


def zip_mtime(zi):
    ex, i = zi.extra, 0
    while i + 4 <= len(ex):
        tag, sz = struct.unpack("<HH", ex[i:i + 4])
        if tag == 0x5455 and sz >= 5:
            return struct.unpack("<I", ex[i + 5:i + 9])[0]
        i += 4 + sz
    return ("dos",) + tuple(zi.date_time)


def list_zip(data):
    out = []
    zf = zipfile.ZipFile(io.BytesIO(data))
    if zf.comment:
        out.append(("pax", zf.comment.decode("latin-1")))
    for zi in zf.infolist():
        n = zi.filename.encode("utf-8", "surrogateescape") if zi.flag_bits & 0x800 else zi.filename.encode("cp437")
        unix = zi.external_attr >> 16
        body = zf.read(zi)
        if n.endswith(b"/"):
            out.append(("dir", n, unix, mt(zip_mtime(zi))))
        elif unix & 0o170000 == 0o120000:
            out.append(("link", n, unix, mt(zip_mtime(zi)), body))
        else:
            out.append(("file", n, unix, mt(zip_mtime(zi)), body))
    return out


def listing(fmt, data):
    if fmt == "zip":
        return list_zip(data)
    if fmt in ("tar.gz", "tgz"):
        data = gzip.decompress(data)
    return list_tar(data)


def git_err_class(stderr):
    if b"did not match any files" in stderr or b"empty string is not a valid pathspec" in stderr:
        return "nomatch"
    if b"not a tree object" in stderr or b"not a valid object name" in stderr or b"does not exist in" in stderr or b"exists on disk, but not in" in stderr:
        return "subpath"
    if b"Unknown archive format" in stderr:
        return "format"
    return "other:" + stderr.decode("latin-1")[:100]


# ---------------------------------------------------------------- generators
NAMES = [b"a", b"ab", b"a.b", b"b.txt", b"c.go", b"d", b"d.x", b"e", b"src", b"src2", b"x.go", b"README.md", b"Makefile", b"lib", b"main.c", b"z",
         b"with space", b"\xc3\xa9t\xc3\xa9", b"\xe2\x82\xac", b"a.b.c", b"-dash", b"~tilde", b"#hash", b"UPPER", b"0"]
ODD = [b"\xff\xfe", b"a*b", b"q?", b"[x]", b"x" * 101, b"y" * 160, b"w" * 256, b"'q'", b'"dq"', b"{b}", b"a=b", b"\xf0\x9f\x98\x80"]
DATA = [b"", b"x", b"hello\n", b"#!/bin/sh\necho hi\n", b"\0\1\2binary\xff", b"line1\nline2\n", b"package main\n"]


def sort_key(e):
    n = bytes.fromhex(e["name"])
    return n + b"/" if e["kind"] == "dir" else n


def gen_tree(rng, depth, odd, empties):
    ents, used = [], set()
    for _ in range(rng.choice([0, 1, 2, 2, 3, 4, 6]) if depth else rng.choice([1, 2, 3, 4, 5, 7])):
        name = rng.choice(ODD) if odd and rng.random() < 0.3 else rng.choice(NAMES)
        if name in used:
            continue
        used.add(name)
        k = pick_weighted(rng, [(6, "file"), (2, "exec"), (2, "link"), (1, "sub"), (4 if depth < 3 else 0, "dir")])
        e = {"kind": k, "name": name.hex()}
        if k in ("file", "exec"):
            e["data"] = (rng.choice(DATA) if rng.random() < 0.8 else bytes(rng.randrange(256) for _ in range(rng.randrange(1, 80)))).hex()
        elif k == "link":
            e["data"] = rng.choice([b"a", b"../x", b"/etc/passwd", b"t" * 120, b"d/e", b"\xc3\xa9", b""] if odd else [b"a", b"../x", b"d/e"]).hex()
        elif k == "sub":
            e["id"] = bytes(rng.randrange(256) for _ in range(20)).hex()
        else:
            sub = gen_tree(rng, depth + 1, odd, empties)
            if not sub and not empties:
                sub = [{"kind": "file", "name": b"f".hex(), "data": b"x".hex()}]
            e["entries"] = sub
        ents.append(e)
    ents.sort(key=sort_key)
    return ents


def paths_of(ents, base=b""):
    """[(path, kind)] in walk order"""
    out = []
    for e in ents:
        p = base + bytes.fromhex(e["name"])
        out.append((p, e["kind"]))
        if e["kind"] == "dir":
            out += paths_of(e["entries"], p + b"/")
    return out


def has_empty_dir(ents):
    """some sub-tree holds no file, link or submodule at any depth"""
    def nonempty(e):
        return e["kind"] != "dir" or any(nonempty(x) for x in e["entries"])
    def walk(es):
        return any(e["kind"] == "dir" and (not nonempty(e) or walk(e["entries"])) for e in es)
    return walk(ents)


PREFIXES = [b"", b"", b"", b"p/", b"proj-1.0/", b"p/q/", b"pre-", b"p/q", b"\xc3\xa9/", b"with space/"]
ODDPREFIXES = [b"a//", b"/", b"/abs/", b"../x/", b"x/../y/", b"..", b"a/..", b"\\x", b"a\\..\\b/", b"..a/", b"a../", b"./", b"x" * 120 + b"/", b"...", b"a/./b/"]
TIMES = [1, 1000000000, 1700000000, 2 ** 31 - 1, 2 ** 31, 315532800, 4102444800]
ODDTIMES = [0, 2 ** 32, 2 ** 33 - 1, 2 ** 33, 2 ** 36, 315532799, 4354819200]
ZONES = ["+0000", "+0530", "-0800", "+1400"]


def gen_case(rng, bucket):
    odd = bucket in ("odd-names",)
    tree = gen_tree(rng, 0, odd, bucket == "empty-dirs")
    c = {"bucket": bucket, "tree": tree, "time": rng.choice(TIMES), "zone": rng.choice(ZONES), "treeish": rng.choice(["branch", "head", "tag", "commit"]),
         "format": pick_weighted(rng, [(5, "tar"), (2, "tar.gz"), (1, "tgz"), (4, "zip"), (1, "")]), "prefix": rng.choice(PREFIXES).hex(), "paths": []}
    ps = paths_of(tree)
    dirs = [p for p, k in ps if k == "dir"]
    if bucket == "empty-dirs" and not has_empty_dir(tree):
        tree.append({"kind": "dir", "name": b"zz-empty".hex(), "entries": []})
        tree.sort(key=sort_key)
        ps = paths_of(tree)
    if bucket == "prefix":
        c["prefix"] = rng.choice(PREFIXES + ODDPREFIXES + ODDPREFIXES).hex()
    elif bucket == "treeish":
        r = rng.random()
        if r < 0.3:
            c["treeish"] = "tree"
        elif r < 0.7 and dirs:
            c["treeish"] = "sub:" + rng.choice(dirs).hex()
        elif r < 0.85 and ps:
            c["treeish"] = "sub:" + rng.choice(ps)[0].hex()
        else:
            c["treeish"] = "sub:" + rng.choice([b"nope", b"d/nope", b"a/", b"/", b""]).hex()
    elif bucket == "time":
        c["time"] = rng.choice(TIMES + ODDTIMES + ODDTIMES)
    elif bucket == "format":
        c["format"] = rng.choice(["tar", "tar.gz", "tgz", "zip", "", "rar", "TAR", "tar.xz"])
    elif bucket == "filter-sibling":
        # a filter naming X while X<more> exists next to it: "a" must not select "ab" or "a.b"
        base = rng.choice([b"a", b"d", b"src"])
        have = {bytes.fromhex(e["name"]) for e in tree}
        for nm, kind in [(base, rng.choice(["file", "dir"])), (base + rng.choice([b"b", b".x", b"2", b"-"]), rng.choice(["file", "dir", "exec"]))]:
            if nm not in have:
                have.add(nm)
                e = {"kind": kind, "name": nm.hex()}
                if kind == "dir":
                    e["entries"] = [{"kind": "file", "name": b"f".hex(), "data": b"x".hex()}]
                else:
                    e["data"] = b"s".hex()
                tree.append(e)
        tree.sort(key=sort_key)
        c["paths"] = [base.hex()]
    elif bucket in ("filter", "filter-odd") and ps:
        fs = []
        for _ in range(rng.choice([1, 1, 1, 2, 3])):
            p, k = rng.choice(ps)
            r = rng.random()
            if bucket == "filter" or r < 0.3:
                fs.append(p)                                       # an existing path (file, dir, link, submodule)
            elif r < 0.45:
                fs.append(p + b"/")
            elif r < 0.6:
                fs.append(rng.choice([b"nope", b"d/nope", p + b"x", p[:-1] if len(p) > 1 else b"q"]))
            elif r < 0.8:
                fs.append(rng.choice([b"*.go", b"*", b"*/*", b"d/*", b"?", b"[a-c]*", b"*.txt", b"src/*.go", b"\\a", b"[", b"a[", b"**/x.go"]))
            else:
                fs.append(b"")
        c["paths"] = [f.hex() for f in fs]
    return c


def glob_chars(f):
    return any(ch in f for ch in b"*?[\\")


class Main(Suite):
    name = "main"
    go_cmd = "c50"
    coq_imports = "From GoGit Require Import Model.Archive Spec.GitArchive."
    quick_n = 200
    thorough_n = 1500
    coq_chunk = 150

    def gen(self, rng, n, tier):
        buckets = [(4, "plain"), (2, "odd-names"), (2, "empty-dirs"), (3, "prefix"), (3, "treeish"), (2, "time"), (1, "format"), (4, "filter"), (2, "filter-sibling"), (3, "filter-odd")]
        return [gen_case(rng, pick_weighted(rng, buckets)) for _ in range(n)]

    def nontrivial(self, c):
        return any(e["kind"] == "dir" for e in c["tree"]) or c["bucket"] != "plain"

    def show(self, c):
        return c

    # ---- the property on the implementation: same listing as git archive
    def git_results(self, ctx, cases):
        if getattr(self, "_git_for", None) is cases:
            return self._git
        repo = os.path.join(ctx.tmp, "git-%d" % len(os.listdir(ctx.tmp)))
        os.makedirs(repo)
        e = dict(GITENV)
        e["HOME"] = repo
        subprocess.run(["/usr/bin/git", "init", "-q", "-b", "main", "."], cwd=repo, env=e, check=True, stdout=subprocess.DEVNULL)
        gd = os.path.join(repo, ".git")
        res = {}
        ids = {}
        for c in cases:
            root = build_tree(gd, c["tree"])
            ch = write_obj(gd, "commit", commit_bytes(root, c))
            th = write_obj(gd, "tag", tag_bytes(ch, c))
            ids[c["id"]] = (root, ch, th)

        def one(c):
            root, ch, th = ids[c["id"]]
            p = git_archive(repo, c, root, ch, th)
            fmt = c["format"] or "tar"
            if p.returncode != 0:
                return ("err", git_err_class(p.stderr), ch, root)
            try:
                return ("ok", listing(fmt, p.stdout), ch, root)
            except Exception as ex:   # git's own archive is unreadable for python: no verdict
                return ("unreadable", repr(ex), ch, root)

        with ThreadPoolExecutor(max_workers=8) as ex:
            for c, r in zip(cases, ex.map(one, cases)):
                res[c["id"]] = r
        self._git_for, self._git = cases, res
        return res

    def impl_listing(self, c, r):
        """python listing of go-git's archive bytes, or ('err', class)"""
        if r is None:
            return ("none",)
        ex = r.get("extra") or {}
        if not r["out"].startswith("( ok"):
            return ("err", r["out"][6:-2], ex.get("err", ""))
        try:
            return ("ok", listing(c["format"] or "tar", bytes.fromhex(ex["archive"])))
        except Exception as e:
            return ("unreadable", repr(e))

    def oracle(self, ctx, cases, impl, model):
        fails = {}
        git = self.git_results(ctx, cases)
        for c in cases:
            i = c["id"]
            r = impl.get(i)
            if r is None:
                continue
            g = git[i]
            ex = r.get("extra") or {}
            if ex.get("commit") and ex["commit"] != g[2]:
                fails[i] = "harness fault: commit ids differ (%s vs %s)" % (ex.get("commit"), g[2])
                continue
            mine = self.impl_listing(c, r)
            prefix = bytes.fromhex(c["prefix"])
            if g[0] == "unreadable":
                continue
            if mine[0] == "err":
                if mine[1] == "prefix" and invalid_prefix(prefix):
                    continue                              # deliberate refusal (HasInvalidPrefix), see ASSUMPTIONS
                if g[0] == "err":
                    continue                              # both refuse the request
                fails[i] = "go-git refuses (%s: %s), git archive gives %s" % (mine[1], mine[2][:80], brief(g))
            elif mine[0] == "ok":
                if g[0] == "err":
                    fails[i] = "go-git archives %s, git archive refuses (%s)" % (brief(mine), g[1])
                elif mine[1] != g[1]:
                    fails[i] = "listings differ: go-git only %s / git only %s" % (
                        [x for x in mine[1] if x not in g[1]][:4], [x for x in g[1] if x not in mine[1]][:4])
            else:
                fails[i] = "go-git's archive is unreadable: %s" % (mine[1:],)
        return fails

    def finding_class(self, c, reason, reply):
        """narrow classes: each must explain the WHOLE difference of the case, anything else stays a violation"""
        g = (getattr(self, "_git", None) or {}).get(c.get("id"))
        fs = [bytes.fromhex(p) for p in c["paths"]]
        mine = self.impl_listing(c, reply)
        if g is None:
            return None
        zipf = (c["format"] or "tar") == "zip"
        prefix = bytes.fromhex(c["prefix"])

        def norm(l):
            """zip-layout view: files only, no modes, a link is a file holding its target"""
            if not zipf:
                return list(l)
            return [("file", e[1], e[3], e[4]) if e[0] in ("file", "link") else e for e in l if e[0] != "dir"]

        def subseq(a, b):
            it = iter(b)
            return all(x in it for x in a)

        if g[0] == "err":
            # git refuses: go-git archiving anyway is the nomatch finding (literal filters) or the glob finding
            if g[1] == "nomatch" and fs and mine[0] == "ok":
                return "filter-glob" if any(glob_chars(f) for f in fs) else "filter-nomatch-accepted"
            return None
        if g[0] != "ok":
            return None
        if mine[0] == "err":
            # go-git finds no match where git does: only a glob that would have to cross '/'
            if mine[1] == "nomatch" and any(glob_chars(f) for f in fs):
                return "filter-glob"
            return None
        if mine[0] != "ok":
            return None
        a, b = norm(mine[1]), norm(g[1])
        if a == b:
            return "zip-layout" if zipf else None
        missing = [e for e in b if e not in a]
        if subseq(a, b) and all(e[0] != "pax" for e in missing):
            names = [e[1][len(prefix):] for e in missing]
            slashed = [f for f in fs if f.endswith(b"/") and not glob_chars(f)]
            if slashed and all(any(n.startswith(f) for f in slashed) for n in names):
                return "filter-trailing-slash"
            if any(glob_chars(f) for f in fs):
                return "filter-glob"
        empties = empty_dir_paths(c["tree"])
        if empties and not zipf:
            drop = {prefix + p + b"/" for p in empties}
            if [e for e in mine[1] if not (e[0] == "dir" and e[1] in drop)] == g[1]:
                return "empty-subtree"
        return None

    # ---- model expressions
    def model_expr(self, c):
        fs = [bytes.fromhex(p) for p in c["paths"]]
        if any(glob_chars(f) for f in fs):
            return None                                   # path.Match is not modelled
        return "c50_run %s" % self.coq_args(c)

    def coq_args(self, c):
        t = c["treeish"]
        tk = "TTree" if t == "tree" else '(TSub (unhex "%s"))' % t[4:] if t.startswith("sub:") else "TCommit"
        fk = {"zip": "FZip", "tar": "FTar", "tar.gz": "FTar", "tgz": "FTar", "": "FTar"}.get(c["format"], "FBad")
        root = tree_id(c["tree"])
        ch = obj_id("commit", commit_bytes(root, c))
        return '%s %s "%s" %s "%s" %s %s' % (tk, fk, ch, coq_Z(c["time"]), c["prefix"],
                                             coq_list(['"%s"' % p for p in c["paths"]]), coq_forest(c["tree"]))

    # ---- C-git: S (Spec/GitArchive) against the git binary
    def extra(self, ctx, cases, impl, model):
        git = self.git_results(ctx, cases)
        ids, exprs = [], []
        for c in cases:
            fs = [bytes.fromhex(p) for p in c["paths"]]
            if any(glob_chars(f) for f in fs) or git[c["id"]][0] == "unreadable":
                continue
            ids.append(c["id"])
            exprs.append("c50_git %s" % self.coq_args(c))
        if ctx.tier == "quick":
            step = max(1, len(ids) // 100)                    # a spread sample; the thorough tier takes every case
            ids, exprs = ids[::step], exprs[::step]
        outs = ctx.coq_eval(self.coq_imports, exprs, chunk=self.coq_chunk)
        bad = 0
        for i, o in zip(ids, outs):
            g = git[i]
            want = render(g[1]) if g[0] == "ok" else "( err %s )" % g[1]
            if o is not None and o.startswith("( err") and g[0] == "err":
                continue
            if o != want:
                bad += 1
                ctx.notes.append("spec_mismatch git_archive on case %d: S=%s git=%s" % (i, (o or "")[:300], want[:300]))
        return {"spec_vs_git_cases": len(ids), "spec_mismatches": bad}


def render(lst):
    out = []
    for e in lst:
        if e[0] == "pax":
            out.append("( pax x%s )" % e[1].encode().hex())
        elif e[0] == "dir":
            out.append("( dir x%s %d %d )" % (e[1].hex(), e[2], e[3]))
        elif e[0] in ("link", "file"):
            out.append("( %s x%s %d %d x%s )" % (e[0], e[1].hex(), e[2], e[3], e[4].hex()))
        else:
            out.append("( other )")
    return "( ok" + "".join(" " + x for x in out) + " )"


def tree_id(ents):
    buf = b""
    for e in ents:
        name, k = bytes.fromhex(e["name"]), e["kind"]
        if k in ("file", "exec", "link"):
            h, mode = obj_id("blob", bytes.fromhex(e["data"])), {"file": b"100644", "exec": b"100755", "link": b"120000"}[k]
        elif k == "sub":
            h, mode = e["id"], b"160000"
        else:
            h, mode = tree_id(e["entries"]), b"40000"
        buf += mode + b" " + name + b"\0" + bytes.fromhex(h)
    return obj_id("tree", buf)


def coq_forest(ents):
    s = "FNil"
    for e in reversed(ents):
        k = e["kind"]
        if k == "file":
            n = '(NFile false (unhex "%s"))' % e["data"]
        elif k == "exec":
            n = '(NFile true (unhex "%s"))' % e["data"]
        elif k == "link":
            n = '(NLink (unhex "%s"))' % e["data"]
        elif k == "sub":
            n = "NSub"
        else:
            n = "(NDir %s)" % coq_forest(e["entries"])
        s = '(FCons (unhex "%s") %s %s)' % (e["name"], n, s)
    return s


def empty_dir_paths(ents, base=b""):
    """paths of the sub-trees that hold no file, link or submodule at any depth"""
    def nonempty(e):
        return e["kind"] != "dir" or any(nonempty(x) for x in e["entries"])
    out = []
    for e in ents:
        if e["kind"] == "dir":
            p = base + bytes.fromhex(e["name"])
            if not nonempty(e):
                out.append(p)
            out += empty_dir_paths(e["entries"], p + b"/")
    return out


def invalid_prefix(p):
    return p.startswith(b"/") or p.startswith(b"\\") or b".." in re.split(rb"[/\\]", p)


def brief(x):
    return repr(x)[:300]


SUITES = [Main()]
