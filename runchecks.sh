#!/bin/sh
# development helper: run quick checks sequentially, log to /tmp/checks/<id>.log, summary line per check
mkdir -p /tmp/checks
for p in "$@"; do
  s=$(date +%s)
  ./check $p > /tmp/checks/$p.log 2>&1; rc=$?
  echo "$p rc=$rc $(( $(date +%s) - s ))s $(grep -c '^KNOWN-FINDING' /tmp/checks/$p.log) known $(grep '^VIOLATION' /tmp/checks/$p.log | head -1)"
done
